"""Per-property table of harness instances (what bin/check runs). Bounds registered here are the ones
that ran clean on the unchanged tree."""

EXTRA_OVERLAY_DIRS = ["internal/zzverifmodels"]


def inst(pkg, harness, params=None, **kw):
    d = dict(pkg=pkg, harness=harness, params=params or {})
    d.update(kw)
    return d


CHECKS = {}

# ---------------------------------------------------------------- C20
_q_quick = [inst("internal/container", "VHQueueStep", {"C": c}, must_reach=["enqueue", "size"]) for c in (0, 2, 3, 8, 16)]
_q_thor = [inst("internal/container", "VHQueueStep", {"C": c}, must_reach=["enqueue", "size"], workers=2) for c in [0] + list(range(2, 41)) + [64]]
_r_quick = [inst("internal/container", "VHQueueRun", {"A": 10, "P": 2}, must_reach=["run-end", "empty-panics"], workers=4)]
_r_thor = [inst("internal/container", "VHQueueRun", {"A": 18, "P": 3}, must_reach=["run-end", "empty-panics"], workers=16)]
_s_quick = [inst("internal/container", "VHStackStep", {"L": l, "S": s}, must_reach=["push", "size", "clear"]) for l in (0, 1, 2, 4) for s in (0, 1, 2)]
_s_thor = [inst("internal/container", "VHStackStep", {"L": l, "S": s}, must_reach=["push", "size", "clear"]) for l in range(0, 9) for s in (0, 1, 2, 3)]
CHECKS["C20"] = dict(
    level="model_checking",
    instances=dict(quick=_q_quick + _r_quick + _s_quick, thorough=_q_thor + _r_thor + _s_thor),
    assumptions=[
        "queue pre-states range over the capacity-agnostic representation invariant of DESIGN B.2 for the capacities listed in bounds",
        "element type instantiated at int; elements are unconstrained 64-bit symbols",
    ],
    trusted_base=["paper step from 'every operation from every invariant state is correct' to 'every history is correct'"],
)
