"""Per-property table of harness instances (what bin/check runs). Bounds registered here are the ones
that ran clean on the unchanged tree."""

EXTRA_OVERLAY_DIRS = ["internal/rng"]


def inst(pkg, harness, params=None, **kw):
    d = dict(pkg=pkg, harness=harness, params=params or {})
    d.update(kw)
    return d


CHECKS = {}

# ---------------------------------------------------------------- C20
_q_quick = [inst("internal/container", "VHQueueStep", {"C": c}, must_reach=["enqueue", "size"], requires="queue-representation") for c in (0, 2, 3, 8, 16, 32)]
_q_thor = [inst("internal/container", "VHQueueStep", {"C": c}, must_reach=["enqueue", "size"], workers=2, requires="queue-representation") for c in [0] + list(range(2, 41)) + [64]]
# calibration of the step harness's reading of the representation (see VHQueueCalib); its verdict gates the instances above
_q_calib = [inst("internal/container", "VHQueueCalib", {"A": 10, "P": 2}, workers=4, calibrates="queue-representation")]
_r_quick = [inst("internal/container", "VHQueueRun", {"A": 10, "P": 2}, must_reach=["run-end", "empty-panics"], workers=4),
            inst("internal/container", "VHQueueRun", {"A": 13, "P": 2}, must_reach=["run-end", "empty-panics"], workers=8)] + _q_calib
_r_thor = [inst("internal/container", "VHQueueRun", {"A": 18, "P": 2}, must_reach=["run-end", "empty-panics"], workers=16),
           inst("internal/container", "VHQueueRun", {"A": 9, "P": 3}, must_reach=["run-end", "empty-panics"], workers=16)] + _q_calib
_s_quick = [inst("internal/container", "VHStackStep", {"L": l, "S": s}, must_reach=["push", "size", "clear"]) for l in (0, 1, 2, 4) for s in (0, 1, 2)] + \
           [inst("internal/container", "VHStackStep", {"L": l, "S": c - l}, must_reach=["push", "size", "clear"]) for (l, c) in ((0, 16), (1, 16), (4, 16), (5, 16), (8, 32), (9, 32))]  # short stacks in big arrays (after Clear or many pops)
_s_thor = [inst("internal/container", "VHStackStep", {"L": l, "S": s}, must_reach=["push", "size", "clear"]) for l in range(0, 9) for s in (0, 1, 2, 3)] + \
          [inst("internal/container", "VHStackStep", {"L": l, "S": c - l}, must_reach=["push", "size", "clear"]) for c in (8, 16, 17, 32, 64) for l in (0, 1, c // 4 - 1, c // 4, c // 4 + 1, c // 2, c - 1)]
CHECKS["C20"] = dict(
    level="model_checking",
    claim="Bounded symbolic execution of the real Queue/Stack SSA: one operation from every state satisfying the representation invariant "
          "(every head/tail position at each listed capacity, symbolic contents) plus bounded runs from the zero value, each compared with a "
          "list model; every assertion is discharged by the SMT solver or by term normalisation, for all 64-bit element values. Quick tier: queue step harness also from every state of a 32-cell buffer.",
    note="Bounds: capacities and run lengths in evidence.bounds. The step from 'every operation from every invariant state is correct' to "
         "'every history' is a paper argument. gosym's SSA semantics and the solvers are trusted.",
    instances=dict(quick=_q_quick + _r_quick + _s_quick, thorough=_q_thor + _r_thor + _s_thor),
    assumptions=[
        "queue pre-states range over the capacity-agnostic representation invariant of DESIGN B.2 for the capacities listed in bounds",
        "element type instantiated at int; elements are unconstrained 64-bit symbols",
    ],
    trusted_base=["paper step from 'every operation from every invariant state is correct' to 'every history is correct'"],
)

# ---------------------------------------------------------------- C19
_c19_q = [inst("root", "VHNumeric", {"FN": f}, solver="cvc5", timeout_ms=300000) for f in range(6)]
_c19_q += [inst("root", "VHConversions", {"CASE": c}, solver="cvc5", workers=2) for c in (0, 1, 2, 3)]
_c19_q += [inst("root", "VHConversions", {"CASE": 4}, solver="z3", workers=4), inst("root", "VHConversions", {"CASE": 5}, solver="z3", workers=2, must_reach=["number-roundtrip-nonintegral"])]
_c19_q += [inst("root", "VHRoundPlaces", {"N": n, "B": 10}, solver="cvc5", timeout_ms=900000) for n in (0, 1)]
_c19_t = _c19_q + [inst("root", "VHRoundPlaces", {"N": 2, "B": 10}, solver="cvc5", timeout_ms=900000),
                   inst("root", "VHRoundPlaces", {"N": 3, "B": 10}, solver="cvc5", timeout_ms=3000000),
                   inst("root", "VHRoundPlaces", {"N": 4, "B": 4}, solver="cvc5", timeout_ms=3000000)]
CHECKS["C19"] = dict(
    level="model_checking",
    claim="Each clause of the property is one floating-point SMT obligation over the real built-in, reached by name through the real function "
          "table and reflection bridge: unsat of the negation means it holds for every double |x| < 2^52 (round_places: for the listed n and "
          "magnitude bound). Conversions are decided on symbolic booleans, symbolic digit strings and all byte strings up to the bound.",
    note="reflect's semantics are supplied by the engine from go/types; math.Floor/Ceil/Trunc/Round are fp.roundToIntegral; strconv's digit "
         "generation and the numeric value of non-integer literals are outside the claim (uninterpreted).",
    instances=dict(quick=_c19_q, thorough=_c19_t),
    assumptions=["|x| < 2^52, x not NaN (as in the property)", "round_places: |x| < 2^B, n = N as listed in bounds; slack of 2 ulp(x) for the double rounding",
                 "number(string(x)) round trip decided for integral x in [-999, 9999] (symbolic digits); for non-integral and large x it is checked on a "
                 "finite set of 15 values covering the formats string() produces (enumeration: the digits are strconv's)",
                 "strings of at most 4 (number) / 5 (bool) arbitrary bytes"],
    trusted_base=["reflect semantics supplied by the engine from go/types", "strconv.ParseFloat value as an uninterpreted function except for integer literals",
                  "math.Floor/Ceil/Trunc/Round = fp.roundToIntegral RTN/RTP/RTZ/RNA"],
)

# ---------------------------------------------------------------- C02
CHECKS["C02"] = dict(
    level="model_checking",
    claim="The real evaluateExpression is executed symbolically on one binary/unary node with an arbitrary 64-bit operator code and operands of "
          "every pair of kinds (all IEEE doubles, all booleans, all strings of 0..2 bytes) and compared with an independently written operator "
          "table; evaluation order and short-circuiting are decided on call trees whose leaves are probe functions with symbolic results.",
    note="Precedence/associativity (which tree a text parses to) is decided by the ANTLR runtime and is outside the claim; the Go side of "
         "spellings (token type -> operator) is the listener harness. math.Mod is uninterpreted.",
    instances=dict(
        quick=[inst("root", "VHBinaryTable", solver="cvc5", workers=8, must_reach=["known-operator", "unknown-operator"]),
               inst("root", "VHUnary", solver="cvc5"),
               inst("root", "VHEvalOrder", solver="z3", workers=4, must_reach=["short-circuit", "both-evaluated"])],
        thorough=[inst("root", "VHBinaryTable", solver="cvc5", workers=8, must_reach=["known-operator", "unknown-operator"]),
                  inst("root", "VHUnary", solver="cvc5"),
                  inst("root", "VHEvalOrder", solver="z3", workers=8, must_reach=["short-circuit", "both-evaluated"])]),
    assumptions=["operands: every pair of kinds, doubles over the whole IEEE domain, strings of 0..2 arbitrary bytes; operator code any 64-bit int",
                 "math.Mod is an uninterpreted function (the check is that % is math.Mod of the operands in order)",
                 "precedence/associativity resolution (ANTLR) is outside the claim"],
)

# ---------------------------------------------------------------- C03
CHECKS["C03"] = dict(
    level="model_checking",
    claim="Inductive step on the real executeSetStatement/executeDeclareStatement and InMemoryStorer: from an arbitrary store (two variables, "
          "each absent or of any type with symbolic value), one set/declare with an arbitrary operator code and right-hand side, compared with "
          "the assignment table; failure leaves the store unchanged; one name never under two types; a host write is what is read next. VHStorerOps: the default in-memory store equals a model (presence, type and value per name, through GetValue, Contains and GetValues, the returned map being the caller's own) after every one of OPS operations among writes of each type, Clear and caller-side changes to a returned map.",
    note="Host storers violating the Storer contract are outside the claim. Strings bounded to 2 bytes; doubles unrestricted.",
    instances=dict(
        quick=[inst("root", "VHSetStatement", solver="cvc5", workers=12, must_reach=["failed", "succeeded", "host-write", "second-assignment"]),
               inst("root", "VHStorerOps", {"OPS": 4}, solver="z3", workers=8, must_reach=["ops", "cleared"])],
        thorough=[inst("root", "VHSetStatement", solver="cvc5", workers=16, must_reach=["failed", "succeeded", "host-write", "second-assignment"]),
                  inst("root", "VHStorerOps", {"OPS": 5}, solver="z3", workers=16, must_reach=["ops", "cleared"])]),
    assumptions=["two variables v, w each absent or of any type; strings of 0..2 arbitrary bytes; doubles unrestricted; operator code any int",
                 "host storers that violate the Storer contract are outside the claim"],
)

# ---------------------------------------------------------------- runner state space (C01, C06, C11, C12)
def _world(h, **params):
    w = params.pop("workers", 8)
    mr = params.pop("must_reach", [])
    return inst("root", h, params, workers=w, must_reach=mr, solver="z3")

_STEP_REACH = ["yield-line", "yield-options", "end", "fail", "pending", "jumped"]
# VHRevisit: a runner that has not started (empty stack built by the harness, no last statement), all three nodes counted
_REVISIT = dict(DEPTH=0, LAST=0, VISCFG=1, must_reach=["revisited", "run-bounded", "run-ended", "yield-options", "handler-args-evaluated", "pending", "fail"])
_REVISIT_BAD = dict(DEPTH=0, LAST=0, VISCFG=1, BAD=1, BADMARKUP=1, BADARG=1, must_reach=["revisited", "run-bounded", "fail", "handler-args"])
CHECKS["C01"] = dict(
    level="model_checking",
    claim="Inductive step on the real DialogueRunner.Next: from every runner state in the bounded state space (continuation stack of the listed "
          "depth/queue lengths with every pointer position incl. exhausted queues, last statement nil/line/other/option group with the chosen "
          "body of length 0..2, symbolic store, node and choice) with a head statement of every kind, the returned element, its node, the "
          "flattened continuation, the waiting flag and handler/function invocation counts equal those of a reference big-step semantics on the "
          "flattened continuation; a symbolic choice leaves all of it unchanged when the pre-state is not waiting. Runs (VHRevisit): on a script "
          "whose three nodes all lead back to n0 = [S, line, jump n0], S of every kind (incl. option bodies left in their middle by a jump, a jump "
          "to \"n\" + $c0, commands whose arguments are function calls), STEPS consecutive calls are each checked against the reference while the "
          "host rewrites every variable between two calls: whatever a call leaves behind that changes how a statement behaves the next time it "
          "runs (caches, memoised targets, reused queues) is a violation.",
    note="Text -> token stream -> parse tree (ANTLR) is outside the claim; the listener side is checked on synthesised parse-tree events where "
         "built. The step from 'every Next from every invariant state' to 'every run' is a paper argument (Next's recursion re-enters as a fresh "
         "call because lastStatement is overwritten first).",
    instances=dict(
        quick=[_world("VHNextStep", DEPTH=2, QLEN=1, BUDGET=1, VISCFG=1, must_reach=_STEP_REACH),
               _world("VHNextStep", DEPTH=1, QLEN=2, BUDGET=1, VISCFG=1, must_reach=_STEP_REACH),
               _world("VHRevisit", STEPS=5, BUDGET=1, JUMPCAT=1, OPTJUMP=1, CMDV=1, VISITCOND=1, **_REVISIT)],
        thorough=[_world("VHNextStep", DEPTH=3, QLEN=2, BUDGET=1, VISCFG=1, workers=16, must_reach=_STEP_REACH),
                  _world("VHRevisit", STEPS=7, BUDGET=1, JUMPCAT=1, OPTJUMP=1, CMDV=1, VISITCOND=1, workers=16, **_REVISIT),
                  _world("VHRevisit", STEPS=5, BUDGET=2, CLAUSES=1, JUMPCAT=1, OPTJUMP=1, CMDV=1, workers=16, **_REVISIT),
                  _world("VHNextStep", DEPTH=1, QLEN=2, BUDGET=1, VISCFG=1, SECOND=1, workers=16, must_reach=_STEP_REACH),
                  _world("VHNextStep", DEPTH=1, QLEN=1, BUDGET=2, VISCFG=1, CLAUSES=1, workers=16, must_reach=_STEP_REACH)]),
    assumptions=["three nodes of opaque lines; statements other than the head (and optionally its successor) are opaque distinct lines",
                 "choice in range when the pre-state waits for a choice (as the property requires), unconstrained otherwise",
                 "line texts are free of markup characters"],
)
CHECKS["C11"] = dict(
    level="model_checking",
    claim="Same inductive step as C01 with the visit map symbolic (three presence configurations, counts >= 1 symbolic) and each node's tracking "
          "header a symbolic 5-byte string: after one Next the count of every node equals its old count plus the number of successful jumps that "
          "left it, unless its header is exactly `never`; non-nodes are never counted; visited/visited_count (through the real reflection bridge) "
          "report the map. Runs (VHRevisit): from a runner's real initial state, on a script whose nodes jump back to n0 (from its top level, "
          "from option and if bodies), command arguments and conditions that read visited()/visited_count() see the reference's counts on "
          "every one of STEPS calls.",
    note="Counts adopted from a host-fabricated snapshot containing zero entries are outside the claim.",
    instances=dict(
        quick=[_world("VHNextStep", DEPTH=1, QLEN=1, BUDGET=1, HEAD=100, must_reach=["jumped", "fail"]),
               _world("VHVisitedFns", DEPTH=1, QLEN=1, HEAD=100, must_reach=["visited-fn", "never-tracked", "jumped", "other-runner"]),
               _world("VHVisitsAcrossRestore", DEPTH=1, QLEN=1, VISCFG=1, must_reach=["tracked-after-restore", "untracked-after-restore"]),
               # runs from a runner's real initial state (a node that jumps to itself from its top level, conditions and command
               # arguments that read visited()/visited_count() on every round): what the inductive step cannot start from
               _world("VHRevisit", STEPS=5, BUDGET=1, JUMPCAT=1, OPTJUMP=1, CMDV=1, VISITCOND=1, **_REVISIT)],
        thorough=[_world("VHRevisit", STEPS=7, BUDGET=1, JUMPCAT=1, OPTJUMP=1, CMDV=1, VISITCOND=1, workers=16, **_REVISIT),
                  _world("VHNextStep", DEPTH=2, QLEN=2, BUDGET=1, HEAD=100, workers=16, must_reach=["jumped", "fail"]),
                  _world("VHNextStep", DEPTH=1, QLEN=2, BUDGET=1, workers=16, must_reach=["jumped", "fail"]),
                  _world("VHVisitedFns", DEPTH=2, QLEN=1, HEAD=100, workers=16, must_reach=["visited-fn", "never-tracked", "jumped", "other-runner"]),
                  _world("VHVisitsAcrossRestore", DEPTH=2, QLEN=2, CMDCHAN=1, VISCFG=1, workers=16, must_reach=["tracked-after-restore", "untracked-after-restore"])]),
    assumptions=["visit-map invariant: present keys are node titles with count in [1, 2^40)"],
)
CHECKS["C12"] = dict(
    level="model_checking",
    claim="From every state of the C01 state space, one Next; on every path where it reports the end (running off the continuation, <<stop>> "
          "with statements still queued, an empty option body chosen), two further Next calls with arbitrary 64-bit arguments must report "
          "the end again, must not panic, and must leave store, visit counts and handler/function logs unchanged. The host may have registered a command of its own under the name stop (its handler is never reached, its channel never awaited) and the stop may be followed by words (<<stop now>>).",
    note="The end states are those the real code produces from the state space, not hand-picked.",
    instances=dict(
        quick=[_world("VHEndAbsorbing", DEPTH=1, QLEN=2, BUDGET=1, VISCFG=1, HOSTSTOP=1, must_reach=["ended"]),
               _world("VHEndAbsorbing", DEPTH=2, QLEN=1, BUDGET=1, VISCFG=1, must_reach=["ended"]),
               _world("VHEndAbsorbing", DEPTH=2, QLEN=1, BUDGET=1, VISCFG=1, HEAD=6, STACKCAP=8, must_reach=["ended", "end-by-stop"])],
        thorough=[_world("VHEndAbsorbing", DEPTH=3, QLEN=2, BUDGET=1, VISCFG=1, workers=16, must_reach=["ended"]),
                  _world("VHEndAbsorbing", DEPTH=1, QLEN=2, BUDGET=1, VISCFG=1, SECOND=1, workers=16, must_reach=["ended"]),
                  _world("VHEndAbsorbing", DEPTH=3, QLEN=2, BUDGET=1, VISCFG=1, STACKCAP=16, workers=16, must_reach=["ended", "end-by-stop"])]),
    assumptions=["as C01"],
)
_c06_b = [inst("root", "VHBuiltinsDomain", {"FN": f}, solver="cvc5", workers=2, must_reach=["called"]) for f in range(15)]
CHECKS["C06"] = dict(
    level="model_checking",
    claim="No panic path is feasible: (1) one Next from every state of the C01 state space whose head may also be ill-typed, reference unknown "
          "variables/nodes/functions/commands, carry a nil or empty expression (the AST left by `null`) or use a value-less function as a value, "
          "followed by a second Next; runs of STEPS calls on a looping script whose statement S may be faulty (incl. a line with faulty markup), "
          "so that a fault is met again and again; host-built snapshots (nil, empty or filled maps) restored and run; (2) every built-in called by name through the real table and reflection bridge with 0..3 arguments of "
          "every kind, numbers ranging over all doubles (0, negatives, non-integers, +-Inf, NaN, beyond int64).",
    note="Panics inside ANTLR are outside the claim; reflect behaves as the engine's go/types-based intrinsics say; rand.Intn by contract (panics iff n <= 0).",
    instances=dict(
        quick=[_world("VHNextFaults", DEPTH=1, QLEN=1, BUDGET=1, VISCFG=1, workers=12, must_reach=["fail", "error-then-next"]),
               _world("VHRevisit", STEPS=5, BUDGET=1, **_REVISIT_BAD),
               _world("VHRestoreHostBuilt", DEPTH=1, QLEN=1, VISCFG=1, LAST=0, must_reach=["host-built", "jump-after-host-built-restore"])] + _c06_b,
        thorough=[_world("VHNextFaults", DEPTH=2, QLEN=2, BUDGET=1, VISCFG=1, workers=16, must_reach=["fail", "error-then-next"]),
                  _world("VHNextFaults", DEPTH=1, QLEN=1, BUDGET=2, VISCFG=1, CLAUSES=1, workers=16, must_reach=["fail", "error-then-next"]),
                  _world("VHRevisit", STEPS=7, BUDGET=1, workers=16, **_REVISIT_BAD),
                  _world("VHRestoreHostBuilt", DEPTH=2, QLEN=2, CMDCHAN=1, workers=16, must_reach=["host-built", "jump-after-host-built-restore"])] + _c06_b),
    assumptions=["in-range choices (as the property requires)", "float->int conversion of out-of-range values as on amd64"],
)
CHECKS["C09"] = dict(
    level="model_checking",
    claim="Range part: for every seed of 1..3 bytes and every value math/rand may return by contract, dice(n) is in [1,n] and errs exactly for "
          "n < 1, random_range(a,b) is in [a,b] for every representable non-empty range and errs on empty ones, random() is in [0,1) "
          "(integer obligations on the results recovered exactly from the real table and bridge). Determinism part (relational): two function "
          "tables built from the same 1..2-byte seed and driven with the same 1..2 calls of dice/random_range/random (32-bit symbolic arguments) "
          "return equal results and errors, with an unrelated third generator used in between, independent environment answers (global rand "
          "source, clock) per copy and a solver-chosen iteration order of the registration map. Streams: the same range claims on math/rand's own "
          "Intn/Float64 code running over a source that returns arbitrary 63-bit values (up to DRAWS draws per call; dice sides and range "
          "widths up to 256 because the generator's modulo is symbolic-by-symbolic), so that a counterexample is a concrete stream a native "
          "replay can feed to the real generator. Across processes (VHCrossProcess): a function table built from a seed (1..3 arbitrary "
          "characters, and lowercase words of 12, 13, 14 (thorough: 20) characters ending in any two characters -- the lengths around which "
          "the seed's radix-36 value stops fitting an int64) and asked for dice/random_range/random returns the same result in another "
          "process, i.e. on package-level state initialised afresh with independent environment answers (clock, global random source, "
          "hash/maphash seeds, process id); a counterexample is confirmed by running the native harness in two processes.",
    note="The bit-for-bit stream of math/rand for a seed is the stdlib's contract (uninterpreted function of seed, call index and bound).",
    instances=dict(
        quick=[inst("root", "VHRandomContracts", solver="z3", workers=8, must_reach=["dice", "random_range", "random"]),
               inst("root", "VHDeterminism", {"CALLS": 1}, solver="z3", workers=8, maporder="symbolic", must_reach=["compared"]),
               inst("root", "VHCrossProcess", {"CALLS": 1, "SEEDLENS": 6}, solver="z3", workers=8, must_reach=["compared"]),
               inst("root", "VHRandomStreams", {"FN": 2, "DRAWS": 2}, solver="cvc5", workers=2, timeout_ms=300000, must_reach=["random"]),
               inst("root", "VHRandomStreams", {"FN": 0, "DRAWS": 2}, solver="z3", workers=4, timeout_ms=300000, must_reach=["dice"]),
               inst("root", "VHRandomStreams", {"FN": 1, "DRAWS": 2}, solver="z3", workers=4, timeout_ms=300000, must_reach=["random_range"]),
               inst("root", "VHRandomStreams", {"FN": 3, "DRAWS": 4}, solver="z3", workers=4, timeout_ms=300000, must_reach=["second-draw"])],
        thorough=[inst("root", "VHRandomContracts", solver="z3", workers=8, must_reach=["dice", "random_range", "random"]),
                  inst("root", "VHDeterminism", {"CALLS": 2}, solver="z3", workers=16, maporder="symbolic", must_reach=["compared"]),
                  inst("root", "VHCrossProcess", {"CALLS": 2, "SEEDLENS": 7}, solver="z3", workers=8, must_reach=["compared"]),
                  inst("root", "VHRandomStreams", {"FN": 2, "DRAWS": 3}, solver="cvc5", workers=2, timeout_ms=600000, must_reach=["random"]),
                  inst("root", "VHRandomStreams", {"FN": 0, "DRAWS": 3}, solver="z3", workers=4, timeout_ms=900000, must_reach=["dice"]),
                  inst("root", "VHRandomStreams", {"FN": 1, "DRAWS": 3}, solver="z3", workers=4, timeout_ms=900000, must_reach=["random_range"]),
                  inst("root", "VHRandomStreams", {"FN": 3, "DRAWS": 4}, solver="z3", workers=4, timeout_ms=300000, must_reach=["second-draw"])]),
    assumptions=["seed strings of 1..3 arbitrary bytes", "cross-process: seeds of 12..20 characters are lowercase words ending in any two characters",
                 "hash/maphash.MakeSeed, os.Getpid, time.Now and the global math/rand source answer arbitrarily and independently per process"],
)

# ---------------------------------------------------------------- C07
CHECKS["C07"] = dict(
    level="model_checking",
    claim="On the real Snapshot/RestoreAt/Next: (1) from every state of the C01 state space whose head is a jump, a snapshot taken before the step "
          "is unchanged by it (deep comparison with a copy) and one taken after equals (store, visit counts, entered node) as of the entry; "
          "(2) RestoreAt of an arbitrary snapshot (symbolic node name incl. unknown ones, symbolic variables and counts) into a runner in any "
          "state (mid-node, exhausted, waiting for a choice, command pending/completed) yields the canonical node-entry state, an immediately "
          "taken snapshot equal to the restored one, and a following step that runs the node's first statement; the snapshot and a second "
          "runner restored from it are unaffected; an unknown node is an error that changes nothing. VHStorerOps (see C03): the default store, which snapshots read through GetValues and restores empty through Clear.",
    note="Equality of futures is argued from equality of abstract states plus determinism of Next (C01/C09) for the arbitrary-state harnesses, and checked "
         "directly on runs by VHRestoreReplay. Scripts using random functions and host storers are outside the claim.",
    instances=dict(
        quick=[_world("VHSnapshotAtJump", DEPTH=1, QLEN=1, HEAD=100, VARSNAP=1, must_reach=["jumped"]),
               _world("VHRestore", DEPTH=1, QLEN=1, CMDCHAN=1, VISCFG=1, must_reach=["restored", "unknown-node", "jump-after-restore", "visit-functions-after-restore"]),
               _world("VHRestoreHostBuilt", DEPTH=1, QLEN=1, VISCFG=1, LAST=0, must_reach=["host-built", "jump-after-host-built-restore"]),
               inst("root", "VHStorerOps", {"OPS": 4}, solver="z3", workers=8, must_reach=["ops", "cleared"]),  # the default store snapshots read and restores clear
               _world("VHRestoreReplay", DEPTH=0, LAST=0, VISCFG=1, STEPS=3, BUDGET=1, JUMPCAT=1, OPTJUMP=1, CMDV=1, VISITCOND=1, must_reach=["entered", "replayed", "same-options", "entering-call-failed"])],
        thorough=[_world("VHRestoreReplay", DEPTH=0, LAST=0, VISCFG=1, STEPS=6, BUDGET=1, JUMPCAT=1, OPTJUMP=1, CMDV=1, VISITCOND=1, workers=16, must_reach=["entered", "replayed", "same-options", "entering-call-failed"]),
                  _world("VHRestoreReplay", DEPTH=0, LAST=0, STEPS=3, BUDGET=2, CLAUSES=1, JUMPCAT=1, OPTJUMP=1, CMDV=1, VISITCOND=1, workers=16, must_reach=["entered", "replayed", "same-options", "entering-call-failed"]),
                  _world("VHSnapshotAtJump", DEPTH=2, QLEN=2, HEAD=100, VARSNAP=1, workers=16, must_reach=["jumped"]),
                  _world("VHSnapshotAtJump", DEPTH=1, QLEN=1, BUDGET=1, VARSNAP=1, workers=16, must_reach=["jumped"]),
                  _world("VHRestore", DEPTH=2, QLEN=2, CMDCHAN=1, workers=16, must_reach=["restored", "unknown-node", "jump-after-restore", "visit-functions-after-restore"]),
                  _world("VHRestoreHostBuilt", DEPTH=2, QLEN=2, CMDCHAN=1, workers=16, must_reach=["host-built", "jump-after-host-built-restore"])]),
    assumptions=["snapshot: node name 2 symbolic bytes, variables b0/x/only with symbolic values, visit counts absent or in [1,2^40)"],
)

# ---------------------------------------------------------------- C10
CHECKS["C10"] = dict(
    level="model_checking",
    claim="On the real Next/executeCommandStatement/commandStorer: from every state of the C01 state space with a command channel that is pending "
          "or completed (nil or error), 0..2 polls while pending return exactly ErrWaitingForCommandCompletion and change nothing (continuation, "
          "store, visit counts, handler/function logs; a blocking receive would be a deadlock path), completion with nil or an error at a "
          "solver-chosen moment is surfaced exactly once, and the dialogue then resumes with an ordinary step; the C01 step checks that every "
          "executed command statement invokes its handler exactly once with its arguments in order and that a still-pending handler is reported. "
          "<<wait n>> on a virtual clock: the sleep completes no earlier than n seconds for every double 0 <= n < 2^31. With a host that registered its own wait, <<wait 0>> reaches that handler, once.",
    note="Data-race freedom and real goroutine timing (Go memory model) are outside the claim: the handler goroutine is run at harness-chosen points. "
         "Handlers converted through reflect are exercised under C16.",
    instances=dict(
        quick=[_world("VHCommandPoll", DEPTH=1, QLEN=1, CMDCHAN=1, VISCFG=1, must_reach=["has-channel", "polled", "error-surfaced", "resumed"]),
               _world("VHNextStep", DEPTH=1, QLEN=2, BUDGET=1, VISCFG=1, HEAD=6, HOSTSTOP=1, must_reach=["pending", "handler-args", "fail", "end-by-stop"]),
               _world("VHRevisit", STEPS=5, BUDGET=1, HEAD=6, CMDV=1, DEPTH=0, LAST=0, VISCFG=1, must_reach=["revisited", "handler-args-evaluated", "pending"]),
               _world("VHRevisit", STEPS=5, BUDGET=1, HEAD=6, **_REVISIT_BAD),
               inst("root", "VHWait", solver="cvc5", timeout_ms=300000, must_reach=["pending"])],
        thorough=[_world("VHCommandPoll", DEPTH=2, QLEN=1, CMDCHAN=1, workers=16, must_reach=["has-channel", "polled", "error-surfaced", "resumed"]),
                  _world("VHCommandPoll", DEPTH=1, QLEN=2, CMDCHAN=1, workers=16, must_reach=["has-channel", "polled", "error-surfaced", "resumed"]),  # DEPTH=2,QLEN=2 ran past 15 min: not registered
                  _world("VHNextStep", DEPTH=2, QLEN=2, BUDGET=1, VISCFG=1, HEAD=6, must_reach=["pending", "handler-args", "fail", "end-by-stop"]),
                  _world("VHRevisit", STEPS=8, BUDGET=1, HEAD=6, CMDV=1, DEPTH=0, LAST=0, workers=16, must_reach=["revisited", "handler-args-evaluated", "pending"]),
                  inst("root", "VHWait", solver="cvc5", timeout_ms=600000, must_reach=["pending"])]),
    assumptions=["completion schedules: already complete, or complete after 0..2 polls, with nil or an error"],
)

# ---------------------------------------------------------------- markup: C13, C14, C15
def _mk(h, solver="z3", workers=8, **params):
    mr = params.pop("must_reach", [])
    return inst("markup", h, params, workers=workers, must_reach=mr, solver=solver)

CHECKS["C15"] = dict(
    level="model_checking",
    claim="The real ParseMarkup (line_parser.go, parse_result.go, processors.go; strings.Reader and utf8 from their own SSA or exact models) is "
          "executed on a buffer of N symbolic bytes from a fresh parser, along every feasible path: no panic path, no exhausted instruction "
          "budget (termination within the bound), and for every result every attribute has Position >= 0, Length >= 0, Position+Length <= number "
          "of characters of Text and TextForAttribute does not panic. Two families: arbitrary ASCII bytes, and fully arbitrary bytes "
          "(multi-byte and invalid UTF-8); and a third one of token-level assemblies of marker fragments (replacement markers included).",
    note="Bounds: N as listed in evidence.bounds; longer strings are outside the claim. unicode.IsSpace/IsDigit/IsLetter are exact (tables "
         "compiled into SMT); regexp through the engine's matcher for the two pattern shapes ysgo uses.",
    instances=dict(
        quick=[_mk("VHMarkupTotal", N=n, ASCII=1, must_reach=["parsed", "error"]) for n in (1, 2, 3, 4, 5)] +
              [_mk("VHMarkupTotal", N=n, ASCII=0, must_reach=["parsed"]) for n in (1, 2, 3)] +
              [_mk("VHMarkupAssembly", K=3, workers=12, must_reach=["parsed", "error", "attribute"]),
               _mk("VHMarkupHistory", H=1, workers=12, must_reach=["parsed", "error", "held-attribute"])],
        thorough=[_mk("VHMarkupHistory", H=1, workers=16, must_reach=["parsed", "error", "held-attribute"]),
                  _mk("VHMarkupHistory", H=2, NORAW=1, workers=16, must_reach=["parsed", "error", "held-attribute"])] +
                 [_mk("VHMarkupTotal", N=n, ASCII=1, workers=16, must_reach=["parsed", "error"]) for n in (1, 2, 3, 4, 5, 6, 7)] +
                 [_mk("VHMarkupTotal", N=n, ASCII=0, workers=16, must_reach=["parsed"]) for n in (1, 2, 3, 4)] +
                 [_mk("VHMarkupAssembly", K=4, workers=16, must_reach=["parsed", "error", "attribute"])]),
    assumptions=["fresh LineParser value (reuse is C14), except VHMarkupHistory: no panic and intact earlier results (TextForAttribute included) over histories of family lines",
                 "assembled lines: K fragments from a 21-element alphabet of marker pieces (brackets, slashes, =, quotes, escapes, a symbolic letter, "
                 "digit and byte >= 0x80, e-acute, whole open/close/self-closing/close-all and replacement markers)"],
)
CHECKS["C14"] = dict(
    level="model_checking",
    claim="Relational: a LineParser in an arbitrary state (symbolic sourcePosition and position, arbitrary input, reader nil or mid-string - an "
          "abstraction of every history incl. failed parses) and a fresh one parse the same line of N symbolic bytes; error-ness, text and every "
          "attribute field (Position, Length, SourcePosition, name, typed properties) are equal. Real histories: H lines of a 12-member family of "
          "structured lines (markers, replacement markers in both forms, lines failing at different points of the scan) parsed first on the same "
          "parser value, then a line of the family, compared with a fresh parser (this also covers state a change may add to the parser). Runner side: the same line shown after a "
          "different (symbolic) previous line through DialogueRunner.Next equals what a fresh parser returns.",
    note="The oracle is the fresh parser itself, so no reference parser is trusted. Bounds on N in evidence.bounds.",
    instances=dict(
        quick=[_mk("VHMarkupPure", N=n, ASCII=1, must_reach=["parsed", "error"]) for n in (2, 3, 4)] +
              [_mk("VHMarkupPure", N=5, ASCII=1, workers=12, must_reach=["parsed", "with-attributes"])] +
              [_mk("VHMarkupHistory", H=1, workers=12, must_reach=["parsed", "error", "held-attribute"])] +
              [inst("root", "VHRunnerMarkupPure", {"N1": 2, "N2": 3}, workers=8, must_reach=["parsed"])],
        thorough=[_mk("VHMarkupPure", N=n, ASCII=1, workers=16, must_reach=["parsed", "error"]) for n in (2, 3, 4, 5, 6)] +
                 [_mk("VHMarkupPure", N=n, ASCII=0, workers=16, must_reach=["parsed"]) for n in (2, 3, 4)] +
                 [_mk("VHMarkupHistory", H=1, workers=16, must_reach=["parsed", "error", "held-attribute"]),
                  _mk("VHMarkupHistory", H=2, NORAW=1, workers=16, must_reach=["parsed", "error", "held-attribute"])] +
                 [inst("root", "VHRunnerMarkupPure", {"N1": 3, "N2": 5}, workers=16, must_reach=["parsed", "with-attributes"])]),
    assumptions=[],
)
CHECKS["C13"] = dict(
    level="model_checking",
    claim="Generate-and-compare on the real ParseMarkup: lines are assembled from templates of ITEMS items (text chunks of 1..2 characters incl. "
          "two-byte characters and spaces, escaped brackets, open / close-by-name / close-all / self-closing markers over names a, b, c with up "
          "to PROPS properties of every value type incl. shorthand and inner whitespace), template shape chosen by forking, contents symbolic; "
          "the expected plain text and, per marker, name, typed properties, position and length in characters are computed while assembling and "
          "compared (as a multiset) with the result, and TextForAttribute with the enclosed text. Separate harnesses: the implicit `Name: ` "
          "prefix, replacement markers (select, plural, ordinal, nomarkup; self-closing and closed by name) and the self-closing whitespace rule. Scripted template: three markers opened over two names, then closed by name in every order the names allow (a close marker takes the oldest open marker of its name), an ASCII or two-byte character after each.",
    note="The final trim of the text and the whitespace swallowed after a self-closing marker are not second-guessed: the generator keeps edge "
         "whitespace out of the plain text and places self-closing markers after non-space characters (the swallow rule has its own harness "
         "mirroring the repository's tests). Decimal values: strconv's exact path float64(mantissa)/10^k.",
    instances=dict(
        quick=[_mk("VHMarkupTemplate", ITEMS=2, PROPS=0, must_reach=["parsed", "attribute"]),
               _mk("VHMarkupTemplate", ITEMS=3, PROPS=0, SHORTHAND=0, workers=16, must_reach=["parsed", "attribute", "nonempty-attribute"]),
               # scripted: three markers opened over names a/b, then closed by name in every order, a character after each
               _mk("VHMarkupTemplate", SCRIPT=1, PROPS=0, SHORTHAND=0, workers=8, must_reach=["parsed", "attribute", "nonempty-attribute"]),
               _mk("VHCharacterPrefix", must_reach=["character"]),
               _mk("VHReplacement", must_reach=["select", "plural", "ordinal", "nomarkup", "second-nomarkup", "second-select"]),
               _mk("VHEdgeWhitespace", must_reach=["edge"]),
               _mk("VHSelfClosingTrim", must_reach=["selfclosing"])],
        thorough=[_mk("VHMarkupTemplate", ITEMS=2, PROPS=0, workers=16, must_reach=["parsed", "attribute"]),
                  _mk("VHMarkupTemplate", SCRIPT=1, PROPS=0, SHORTHAND=0, workers=8, must_reach=["parsed", "attribute", "nonempty-attribute"]),
                  _mk("VHMarkupTemplate", ITEMS=2, PROPS=1, workers=16, solver="cvc5", must_reach=["parsed", "attribute"]),
                  _mk("VHMarkupTemplate", ITEMS=4, PROPS=0, SHORTHAND=0, workers=16, must_reach=["parsed", "attribute", "nonempty-attribute"]),
                  _mk("VHMarkupTemplate", ITEMS=5, PROPS=0, SHORTHAND=0, workers=16, must_reach=["parsed", "attribute", "nonempty-attribute"]),
                  _mk("VHCharacterPrefix", must_reach=["character"]),
                  _mk("VHReplacement", must_reach=["select", "plural", "ordinal", "nomarkup", "second-nomarkup", "second-select"]),
                  _mk("VHEdgeWhitespace", must_reach=["edge"]),
                  _mk("VHSelfClosingTrim", must_reach=["selfclosing"])]),
    assumptions=["plain text starts and ends with a non-space character", "characters: printable ASCII except [ ] \\\\ :, U+00E1..U+00FF, space"],
)

# ---------------------------------------------------------------- C17
CHECKS["C17"] = dict(
    level="model_checking",
    claim="The real CommandStatement.rearrange/split/valueFromCommandText are executed on ITEMS elements, each a COMMAND_TEXT chunk of 1..N symbolic "
          "bytes from the token's alphabet (no > { CR LF) or an expression element, and compared with an independent byte loop: words are the "
          "maximal runs of non-whitespace (space, tab) of the concatenated adjacent chunks, true/false are booleans, -?digits(.digits)? are "
          "numbers equal to the literal, expressions keep their position, every other word is a string verbatim. Dispatch (handler reached once "
          "with the arguments in order, <<stop>> never dispatched, unregistered name an error) is decided by the C01/C10 step harnesses and by runs "
          "(VHRevisit with command heads, incl. a command whose argument fails to evaluate, followed by a well-formed command). Word-level chunks "
          "(WORDS: up to 4 one-letter words per chunk) reach commands longer than the byte-level bound. With a host that registered commands named stop and wait: <<stop>> is still never dispatched, <<wait 0>> reaches the host's handler once.",
    note="Which characters reach COMMAND_TEXT and whether a keyword-prefixed name (iffy, settings) is an ordinary command is decided by the ANTLR "
         "lexer: outside the claim. The numeric value of a literal is strconv's (exact for integer and d.dd literals).",
    instances=dict(
        quick=[inst("internal/tree", "VHCommandArgs", {"ITEMS": 1, "N": 4}, workers=8, must_reach=["rearranged", "boolean", "number", "string"]),
               inst("internal/tree", "VHCommandArgs", {"ITEMS": 2, "N": 3}, workers=8, must_reach=["rearranged", "expression", "number", "string"]),
               inst("internal/tree", "VHCommandArgs", {"ITEMS": 3, "N": 2}, workers=8, must_reach=["rearranged", "expression", "string"]),
               inst("internal/tree", "VHCommandArgs", {"ITEMS": 3, "N": 1, "WORDS": 4}, workers=8, must_reach=["rearranged", "expression", "string", "word-chunk"]),
               _world("VHNextStep", DEPTH=1, QLEN=2, BUDGET=1, VISCFG=1, HEAD=6, HOSTSTOP=1, must_reach=["handler-args", "fail", "end-by-stop"]),
               _world("VHRevisit", STEPS=5, BUDGET=1, HEAD=6, **_REVISIT_BAD),
               inst("root", "VHCommandTwice", solver="cvc5", workers=2, must_reach=["twice"])],
        thorough=[inst("root", "VHCommandTwice", solver="cvc5", workers=2, must_reach=["twice"]),
                  inst("internal/tree", "VHCommandArgs", {"ITEMS": 1, "N": 5}, workers=16, must_reach=["rearranged", "boolean", "number", "string"]),
                  inst("internal/tree", "VHCommandArgs", {"ITEMS": 2, "N": 4}, workers=16, must_reach=["rearranged", "expression", "number", "string"]),
                  inst("internal/tree", "VHCommandArgs", {"ITEMS": 3, "N": 3}, workers=16, must_reach=["rearranged", "expression", "string"]),
                  inst("internal/tree", "VHCommandArgs", {"ITEMS": 4, "N": 1, "WORDS": 4}, workers=16, must_reach=["rearranged", "expression", "string", "word-chunk"]),
                  _world("VHRevisit", STEPS=8, BUDGET=1, HEAD=6, workers=16, **_REVISIT_BAD),
                  _world("VHNextStep", DEPTH=2, QLEN=2, BUDGET=1, VISCFG=1, HEAD=6, must_reach=["handler-args", "fail", "end-by-stop"])]),
    assumptions=["chunk bytes: anything but > { CR LF (the COMMAND_TEXT alphabet); adjacent text chunks do not occur (lexer contract)",
                 "Unicode whitespace other than space and tab (VT, FF, U+0085, U+00A0, U+1680, U+2000.., U+3000) is kept out of the alphabet: the "
                 "property says `whitespace-separated` and the check takes no side on it"],
)

# ---------------------------------------------------------------- lexer / loader: C05, C08 (and the token-balance half of C20)
_STUB_FR = {"github.com/remieven/ysgo/internal/tree.FromReader": "vStubFromReader"}
def _lx(h, workers=8, **params):
    mr = params.pop("must_reach", [])
    return inst("internal/parser", h, params, workers=workers, must_reach=mr, solver="z3")

_lexer_quick = [_lx("VHIndentStep", DEPTH=3, K=3, must_reach=["indent", "same", "dedent", "eof", "mixed"])]
_lexer_thor = [_lx("VHIndentStep", DEPTH=4, K=5, workers=16, must_reach=["indent", "same", "dedent", "eof", "mixed"])]
CHECKS["C20"]["instances"]["quick"] += _lexer_quick
CHECKS["C20"]["instances"]["thorough"] += _lexer_thor
CHECKS["C20"]["claim"] += (" Token balance: inductive step on the real handleNewLineToken/handleEndOfFileToken/insertToken from an arbitrary "
                           "strictly increasing indent stack with symbolic widths: #INDENT-#DEDENT emitted equals the change of the stack depth, at most one "
                           "INDENT or at most depth DEDENTs per NEWLINE, EOF closes exactly the open levels and comes last.")
CHECKS["C20"]["assumptions"] += ["indent stack: depth <= DEPTH, widths symbolic in (0,1000); NEWLINE text: newline + up to K bytes each a space or a tab",
                                 "the base lexer is replaced by harness-built tokens (real BaseLexer object, stub ATN simulator for line/column)"]

CHECKS["C08"] = dict(
    level="model_checking",
    claim="Go-level units only. On the real indentation scanner: (1) a NEWLINE token ending a line without content (next line empty, whitespace-only, "
          "comment-only, or end of input), with any indentation incl. mixed tabs/spaces, from every indent stack emits no INDENT/DEDENT and leaves "
          "the stack unchanged; (2) relational: the same nesting (3 lines, levels 0..2) rendered with spaces of unit 1..3 and with tabs or spaces of "
          "unit 1..4 gives the same INDENT/DEDENT sequence; (3) reader split: nodes of several readers behave as one script (VHNewRunner).",
    note="Comments, CR/LF, spaces inside commands, redundant parentheses and operator spellings are resolved by the ANTLR lexer/parser tables: "
         "outside the claim. The Go side of spellings (one token type -> one operator) is C02's mapping.",
    instances=dict(
        quick=[_lx("VHBlankLines", DEPTH=3, K=3, must_reach=["blank"]), _lx("VHIndentWidths", LINES=3, must_reach=["widths"]),
               inst("root", "VHNewRunner", stubs=_STUB_FR, workers=4, must_reach=["created", "error", "several-nodes"])],
        thorough=[_lx("VHBlankLines", DEPTH=4, K=4, workers=16, must_reach=["blank"]), _lx("VHIndentWidths", LINES=4, workers=16, must_reach=["widths"]),
                  inst("root", "VHNewRunner", stubs=_STUB_FR, workers=4, must_reach=["created", "error", "several-nodes"])]),
    assumptions=["tree.FromReader replaced by a contract stub under the engine (real parser in native replays)"],
)
CHECKS["C05"] = dict(
    level="model_checking",
    claim="Go-level units only. (1) NewDialogueRunner over 1..2 readers each failing, invalid, or holding 1..2 nodes, with every 1..2-byte seed: no "
          "panic, an error exactly when a reader fails / is invalid / the seed is outside [0-9a-z]*, otherwise a runner that starts at the first "
          "node of the first reader; (2) seed parsing for every string of N bytes: total, errs exactly outside [0-9a-z], value = base 36; "
          "(3) the indentation scanner is total on pure indentation and refuses mixed tabs/spaces by a panic that FromReader converts to an "
          "error. The witnesses of the repaired loader defects (empty input, lone newline, mixed indentation, missing body, <<if >>) are "
          "replayed natively through the real lexer and parser on every run.",
    note="Acceptance/rejection of syntax and panics inside the ANTLR runtime are not decided symbolically: FromReader is a contract stub under the "
         "engine (returns an error, or a dialogue with >= 1 node); its recover() and error listener are exercised only by the native witnesses.",
    instances=dict(
        quick=[inst("root", "VHNewRunner", stubs=_STUB_FR, workers=4, must_reach=["created", "error", "several-nodes"])] +
              [inst("internal/rng", "VHSeed", {"N": n}, workers=4, must_reach=["accepted"]) for n in (0, 1, 2, 3)] + _lexer_quick +
              [inst("internal/tree", "VHSyntaxErrors", workers=2, must_reach=["syntax-errors"])],
        thorough=[inst("root", "VHNewRunner", stubs=_STUB_FR, workers=4, must_reach=["created", "error", "several-nodes"])] +
                 [inst("internal/rng", "VHSeed", {"N": n}, workers=16, must_reach=["accepted"]) for n in (0, 1, 2, 3, 4)] + _lexer_thor +  # N=5: solver unknowns, not registered
                 [inst("internal/tree", "VHSyntaxErrors", workers=2, must_reach=["syntax-errors"])]),
    assumptions=["FromReader's contract: an error, or a dialogue with at least one node"],
)

# ---------------------------------------------------------------- C16
_c16 = [inst("root", "VHBridgeFunction", {"SIG": i}, solver="cvc5", workers=2) for i in range(38)] + \
       [inst("root", "VHBridgeCommand", {"SIG": i}, solver="cvc5", workers=1) for i in range(12)]
CHECKS["C16"] = dict(
    level="model_checking",
    claim="The real bridge (newYarnSpinnerFunction, createInputConverter, createVariadicInputConverter, checkFunctionOutputParameters, "
          "getTreeValue, argConverterByGoalKind, newYarnSpinnerCommand, checkCommandOutputParameters, isTypeErrChan) runs symbolically on the "
          "engine's reflect intrinsics for a finite list of 38 function and 12 command values (0..3 parameters and variadic tails over int, "
          "int8..int64, float32, float64, bool, string, named variants, struct, slice, uint; 0..3 results over the same plus error, a named "
          "error type, chan error, <-chan error; non-functions and nil): registration accepts exactly the bridgeable ones without panicking; for "
          "each accepted one a symbolic argument list (0..4 arguments of symbolic kind and payload, all doubles) either invokes the function "
          "exactly once with the converted arguments in order and converts result/error back, or is an error without invoking it; no panic path. "
          "The same registered function is then called a second time with well-typed arguments (whatever the first call was, it leaves nothing "
          "behind), and a converted command is run again after a run whose outcome nobody collected (it reports its own outcome).",
    note="Go types cannot be solver variables: the signature space is a finite list written in the harness (enumerated, not symbolic). "
         "reflect's semantics (arity/assignability rules of Value.Call, ConvertibleTo, Convert) are supplied by the engine from go/types, not "
         "reflect's implementation. Out-of-range float->small-int conversions follow amd64.",
    instances=dict(quick=_c16, thorough=_c16),
    assumptions=["signatures outside the list are outside the claim"],
)

# ---------------------------------------------------------------- C04
CHECKS["C04"] = dict(
    level="model_checking",
    claim="On the real Next (line and option cases), textElementsToMarkup, Value.ToString and the markup parser: a line of ELEMS text elements, each a "
          "literal of 1..2 symbolic plain characters or an inline expression (integral number with symbolic digits, non-integral number from a "
          "finite set, boolean variable, string, string concatenation), with 0..2 tags: the returned text is the concatenation in order of the "
          "literals and display forms (integral numbers without decimal point, True/False, strings verbatim), tags in order. Option groups of "
          "1..OPTS options with condition absent / symbolic boolean / non-boolean / unknown variable: every option listed in order with its text "
          "and tags, Disabled exactly when its condition is false, an error exactly for non-boolean conditions. Display forms left out by that "
          "generator (VHDisplayForms): whole numbers beyond the 32-bit range (finite set up to 2^52) are shown as integers; literals and string "
          "values that begin with, end with or are a multi-byte character (symbolic two- and three-byte encodings other than Unicode spaces) "
          "are shown verbatim.",
    note="Everything the ANTLR lexer decides is outside the claim: which characters survive lexing, backslash escapes, comments, where a hashtag "
         "starts, whitespace stripping of the source line. The digits of numbers are strconv's (non-integral numbers: finite set, native).",
    instances=dict(
        quick=[inst("root", "VHLineRendering", {"ELEMS": 1}, workers=4, must_reach=["line", "fault-first"]),
               inst("root", "VHLineRendering", {"ELEMS": 2}, workers=8, must_reach=["line", "fault-first"]),
               inst("root", "VHOptionRendering", {"OPTS": 2}, workers=8, must_reach=["options", "bad-condition"]),
               inst("root", "VHDisplayForms", workers=4, must_reach=["whole-number", "multi-byte-end", "multi-byte-value"])],
        thorough=[inst("root", "VHDisplayForms", workers=4, must_reach=["whole-number", "multi-byte-end", "multi-byte-value"]),
                  inst("root", "VHLineRendering", {"ELEMS": 2}, workers=8, must_reach=["line", "fault-first"]),
                  inst("root", "VHLineRendering", {"ELEMS": 3}, workers=16, must_reach=["line", "fault-first"]),
                  inst("root", "VHOptionRendering", {"OPTS": 2}, workers=16, must_reach=["options", "bad-condition"])]),  # OPTS=3 ran past 15 min: not registered
    assumptions=["literal characters: printable ASCII except [ ] \\\\ : and space at the edges (markup-free, no trimming)", "integral numbers in [-255, 255], and ten wide ones between 2^31 and 2^52",
                 "multi-byte characters: U+0080..U+07FF and U+1000..U+CFFF minus the Unicode spaces and the block E2 80 xx"],
)

# ---------------------------------------------------------------- listener side (C01, C02; also the listener parts of C04 and C17)
def _ls(h, workers=8, **params):
    mr = params.pop("must_reach", [])
    kw = {}
    if "wall_s" in params:
        kw["wall_s"] = params.pop("wall_s")
    return inst("internal/tree", h, params, workers=workers, must_reach=mr, solver="z3", **kw)

_LISTENER_NOTE = (" Listener side: the real parserListener is driven by the events of ANTLR's real ParseTreeWalker over a synthesised parse tree (real "
                  "generated context classes, terminal nodes and tokens) and the syntax tree built is compared with the one the parse tree denotes "
                  "(statement trees incl. if chains nested in the clauses of if chains to depth 2 and two nodes in a row; expression trees incl. "
                  "left-leaning chains (a op b) op c).")
CHECKS["C02"]["instances"]["quick"] += [_ls("VHExpressionListener", DEPTH=1, must_reach=["expression", "binary"]),
                                        # left-leaning chains (a op b) op c, the shape left-associativity produces: number leaves, one operator per family
                                        _ls("VHExpressionListener", DEPTH=2, LEAN=1, SKEW=1, must_reach=["expression", "binary"])]
CHECKS["C02"]["instances"]["thorough"] += [_ls("VHExpressionListener", DEPTH=1, must_reach=["expression", "binary"]),
                                           _ls("VHExpressionListener", DEPTH=2, LEAN=1, workers=16, must_reach=["expression", "binary"]),
                                           _ls("VHExpressionListener", DEPTH=2, LEAN=1, SKEW=1, workers=16, must_reach=["expression", "binary"])]  # full depth 2 ran past 25 min: not registered
CHECKS["C02"]["claim"] += _LISTENER_NOTE + (" Expressions: every parse-tree shape of depth <= 1 (quick) / depth 2 with number leaves and one operator token per grammar family (thorough, LEAN) over number, boolean, "
                                            "string, variable, call with 0..2 arguments, -e, not e, (e) and e op e for each of the fourteen operator tokens: operator "
                                            "mapping, operand order and nesting.")
CHECKS["C01"]["instances"]["quick"] += [_ls("VHStatementListener", DEPTH=1, NODELEN=1, must_reach=["dialogue"]),
                                        _ls("VHStatementListener", DEPTH=0, NODELEN=2, must_reach=["dialogue"]),
                                        _ls("VHStatementListener", DEPTH=0, NODELEN=1, NODES=2, must_reach=["dialogue"]),
                                        # if chains nested in the clauses of if chains (any clause, with clauses following), lines elsewhere
                                        _ls("VHStatementListener", DEPTH=2, NODELEN=1, IFONLY=1, ELSEIF=0, must_reach=["dialogue"])]
CHECKS["C01"]["instances"]["thorough"] += [_ls("VHStatementListener", DEPTH=1, NODELEN=1, must_reach=["dialogue"]),
                                           _ls("VHStatementListener", DEPTH=2, NODELEN=1, IFONLY=1, ELSEIF=0, must_reach=["dialogue"]),
                                           _ls("VHStatementListener", DEPTH=0, NODELEN=2, must_reach=["dialogue"]),
                                        _ls("VHStatementListener", DEPTH=0, NODELEN=1, NODES=2, must_reach=["dialogue"]),
                                           _ls("VHStatementListener", DEPTH=2, NODELEN=1, OPTS=1, ELSEIF=0, workers=16, must_reach=["dialogue"]),
                                           _ls("VHStatementListener", DEPTH=1, NODELEN=1, OPTS=2, BODY=2, workers=16, must_reach=["dialogue"])]
CHECKS["C01"]["claim"] += _LISTENER_NOTE + (" Statements: dialogues of 1..2 nodes whose bodies hold lines (text runs split over several TEXT tokens, inline expressions, "
                                            "conditions, hashtags), set with every assignment token, declare, jump by name/expression, commands (text and expressions, "
                                            "rearranged), calls, and option groups / if-elseif-else chains nested to the listed depth.")

# ---------------------------------------------------------------- additions to the claims after the second seeding round
_ADD = {
    "C02": " Evaluation order: every probe call records the values it received (a call receives the values its argument calls returned, in order), "
           "with another call expression possibly evaluated before; numbers are arbitrary doubles or integers in [-9, 9] (for which % is decided exactly).",
    "C03": " A second assignment to the same variable follows, after the host wrote to it or not: it starts from what the storer holds. Numbers are "
           "arbitrary doubles or integers in [-9, 9] (for which %= is decided exactly).",
    "C04": " The same line / group is rendered twice on one runner, the host rewriting every variable it reads in between (the second rendering shows "
           "the new values), optionally after a line whose inline expression failed half-way (nothing of it shows).",
    "C07": " The main clause taken literally (VHRestoreReplay): the original runs a looping script (S of every kind, conditions that may read visited()) until "
           "a call that entered a node, a snapshot is taken, and a fresh runner of the same script with its own storer is restored from it: its first "
           "call returns what the original's entering call returned and then, for the same choices, the same elements for STEPS calls. "
           "visited/visited_count asked through the function table of both restored runners report the snapshot's counts. Host-built snapshots (nil, "
           "empty or filled maps) restore to the state they describe and the runner then runs, jumps included, without panicking.",
    "C11": " They do so with a second runner of another history alive, and across a restore: after restoring an arbitrary snapshot they report its "
           "counts, and after the jump that follows the count of the node left is one more unless it is not tracked.",
    "C12": " Also with the continuation stack living in a bigger backing array (STACKCAP), as after a run that was deeper once.",
    "C13": " Edge whitespace: leading x inner x trailing whitespace around and inside markers (text trimmed, attributes delimit what remains of their "
           "enclosed text). A second open-form replacement marker later on the line.",
    "C14": " Results of the history are kept and compared with copies after the later parses (a result handed out is not changed by what the parser "
           "does next); the runner side compares properties as well.",
    "C15": " Histories of family lines on one parser (VHMarkupHistory): no panic, earlier results intact, TextForAttribute on them total.",
    "C19": " Every one-argument call is made twice (same outcome, same value) and the argument is compared with a copy taken before (built-ins are "
           "functions of their argument and leave it alone).",
    "C20": " Stacks: also short stacks in backing arrays of 16 and 32 cells (after Clear or many pops).",
    "C05": " The listener FromReader hands to lexer and parser records every syntax error it is told about, with or without an offending token "
           "(VHSyntaxErrors).",
}
for _k, _v in _ADD.items():
    CHECKS[_k]["claim"] += _v
