package ysgo

import (
	"github.com/remieven/ysgo/internal/container"
	"github.com/remieven/ysgo/internal/tree"
	"github.com/remieven/ysgo/variable"
)

// The runner state space shared by C01, C06, C07, C10, C11, C12 (DESIGN appendix B.1).
//
// A vWorld is an arbitrary runner state satisfying the representation invariant: the *shape*
// (stack depth, queue lengths and pointers, statement kinds) is chosen by vChoose forks, all
// scalar content (conditions, counts, values, choice) stays symbolic. Only the statements that
// one Next call can reach first are of arbitrary kind; every other statement is an opaque,
// distinct line.

type vHandlerCall struct {
	name string
	args []*variable.Value
}

type vWorld struct {
	dr              *DialogueRunner
	store           *variable.InMemoryStorer
	nodes           []*tree.Node
	titles          []string
	handlers        []vHandlerCall // commands seen by handlers registered with AddCommand
	probes          []vHandlerCall // calls seen by functions registered with AddFunction
	pending         chan error     // the channel returned by the "pend" command, if it ran
	prior           chan error     // a command channel already installed in the pre-state (CMDCHAN)
	priorUnbuffered bool
	priorDone       bool
	priorFailed     bool
	lineCtr         int
	lines           map[*tree.Statement]string // opaque line statement -> its text
	waiting         *tree.ShortcutOptionStatement
	choice          int
	depthCfg        int
	badLines        map[*tree.Statement]bool // line statements whose markup is faulty (BADMARKUP)
	hostBuiltins    bool                     // the host registers commands of its own under the names stop and wait (HOSTSTOP)
}

func (w *vWorld) newLineStmt(prefix string) *tree.Statement {
	w.lineCtr++
	text := prefix + vItoa(w.lineCtr)
	s := &tree.Statement{LineStatement: &tree.LineStatement{
		Text: &tree.LineFormattedText{Elements: []*tree.LineFormattedTextElement{{Text: text}}},
	}}
	w.lines[s] = text
	return s
}

func (w *vWorld) opaqueBody(n int) []*tree.Statement {
	var out []*tree.Statement
	for i := 0; i < n; i++ {
		out = append(out, w.newLineStmt("L"))
	}
	return out
}

func vVarExpr(name string) *tree.Expression {
	n := name
	return &tree.Expression{VariableID: &n}
}

func vValExpr(v *variable.Value) *tree.Expression { return &tree.Expression{Value: v} }

// condition shapes: 0 reads the symbolic boolean $b<idx>; with allowBad also 1 a number (ill-typed), 2 unknown variable
func vCondExpr(tag string, idx int, allowBad bool) *tree.Expression {
	shapes := []int{0}
	if allowBad {
		shapes = append(shapes, 1, 2, 3, 4, 5)
	}
	if vParam("VISITCOND", 0) != 0 {
		shapes = append(shapes, 6) // a condition that reads the visit counts: visited("n1")
	}
	switch shapes[vChoose(tag+".cond", len(shapes))] {
	case 6:
		return &tree.Expression{FunctionCall: &tree.FunctionCall{FunctionID: "visited", Arguments: []*tree.Expression{vValExpr(variable.NewString("n1"))}}}
	case 1:
		return vValExpr(variable.NewNumber(1))
	case 2:
		return vVarExpr("nosuchvar")
	case 3:
		return nil // what the listener leaves behind for `null` (no callback fires)
	case 4:
		return &tree.Expression{} // an expression with no field set
	case 5:
		// a function that returns nothing, used as a value
		return &tree.Expression{FunctionCall: &tree.FunctionCall{FunctionID: "noreturn"}}
	}
	if idx%2 == 0 {
		return vVarExpr("b0")
	}
	return vVarExpr("b1")
}

// optionGroup as a *head*: 1..maxOpts options, each with or without a condition; bodies are one opaque line
// (bodies matter only on the following step, which is the waiting pre-state of another path).
func (w *vWorld) optionGroup(tag string, maxOpts int, allowBad bool) *tree.Statement {
	n := 1 + vChoose(tag+".nopts", maxOpts)
	g := &tree.ShortcutOptionStatement{}
	for i := 0; i < n; i++ {
		ls := w.newLineStmt("O").LineStatement
		if vChoose(tag+".o"+vItoa(i)+".hascond", 2) == 1 {
			ls.Condition = vCondExpr(tag+".o"+vItoa(i), i, allowBad)
		}
		g.Options = append(g.Options, &tree.ShortcutOption{LineStatement: ls, Statements: w.opaqueBody(1)})
	}
	return &tree.Statement{ShortcutOptionStatement: g}
}

// lastGroup: the option group a waiting pre-state was yielded from: nOpts options, the body of the chosen one of
// length 0..2 (forked), the others one line.
func (w *vWorld) lastGroup(nOpts, chosen int) *tree.Statement {
	g := &tree.ShortcutOptionStatement{}
	for i := 0; i < nOpts; i++ {
		ls := w.newLineStmt("O").LineStatement
		bl := 1
		if i == chosen {
			bl = vChoose("lastgroup.body", 3)
		}
		g.Options = append(g.Options, &tree.ShortcutOption{LineStatement: ls, Statements: w.opaqueBody(bl)})
	}
	return &tree.Statement{ShortcutOptionStatement: g}
}

func vCommandStmt(words ...*variable.Value) *tree.Statement {
	cs := &tree.CommandStatement{}
	for _, v := range words {
		cs.Elements = append(cs.Elements, &tree.CommandStatementElement{Expression: vValExpr(v)})
	}
	return &tree.Statement{CommandStatement: cs}
}

const (
	vKLine = iota
	vKOptions
	vKIf
	vKSet
	vKDeclare
	vKCall
	vKCommand
	vKJumpName
	vKJumpExpr
	vKBad
	vNumKinds
)

// vStatement: a statement of symbolic kind; budget bounds the nesting of arbitrary statements.
func (w *vWorld) vStatement(tag string, budget int, allowBad bool) *tree.Statement {
	if budget <= 0 {
		return w.newLineStmt("L")
	}
	nk := vNumKinds
	if !allowBad {
		nk = vKBad
	}
	kind := vParam("HEAD", -1)
	if kind < 0 || tag != "head" {
		kind = vChoose(tag+".kind", nk)
	} else if kind == 100 { // any jump
		kind = vKJumpName + vChoose(tag+".jumpkind", 2)
	}
	switch kind {
	case vKLine:
		if allowBad && vParam("BADMARKUP", 0) != 0 && vChoose(tag+".badmarkup", 2) == 1 {
			// a line without inline expression whose markup is faulty (a close marker nothing opened)
			s := w.newLineStmt("L")
			s.LineStatement.Text.Elements[0].Text = "a[/b]"
			if w.badLines == nil {
				w.badLines = map[*tree.Statement]bool{}
			}
			w.badLines[s] = true
			return s
		}
		return w.newLineStmt("L")
	case vKOptions:
		g := w.optionGroup(tag, vParam("OPTS", 2), allowBad)
		if vParam("OPTJUMP", 0) != 0 {
			// bodies that are left in their middle by a jump back to n0
			for _, o := range g.ShortcutOptionStatement.Options {
				o.Statements = []*tree.Statement{o.Statements[0],
					{JumpStatement: &tree.JumpStatement{Expression: vValExpr(variable.NewString("n0"))}}, w.newLineStmt("L")}
			}
		}
		return g
	case vKIf:
		st := &tree.IfStatement{}
		nc := 1 + vChoose(tag+".nclauses", vParam("CLAUSES", 2))
		for i := 0; i < nc; i++ {
			ctag := tag + ".c" + vItoa(i)
			cl := &tree.Clause{Condition: vCondExpr(ctag, i, allowBad)}
			if i == nc-1 && vChoose(ctag+".else", 2) == 1 {
				cl.Condition = vValExpr(variable.NewBoolean(true)) // an else clause
			}
			bl := vChoose(ctag+".body", 3)
			for j := 0; j < bl; j++ {
				if j == 0 {
					cl.Statements = append(cl.Statements, w.vStatement(ctag+".s", budget-1, allowBad))
				} else {
					cl.Statements = append(cl.Statements, w.newLineStmt("L"))
				}
			}
			st.Clauses = append(st.Clauses, cl)
		}
		return &tree.Statement{IfStatement: st}
	case vKSet:
		// $x op= 1 with op in {=, +=} or an ill-typed assignment to the boolean $b0
		switch vChoose(tag+".set", 3) {
		case 0:
			return &tree.Statement{SetStatement: &tree.SetStatement{VariableID: "x", InPlaceOperator: tree.AssignmentInPlaceOperator, Expression: vValExpr(variable.NewNumber(vFloat(tag + ".setv")))}}
		case 1:
			return &tree.Statement{SetStatement: &tree.SetStatement{VariableID: "b1", InPlaceOperator: tree.AssignmentInPlaceOperator, Expression: &tree.Expression{NotExpression: vVarExpr("b1")}}}
		default:
			return &tree.Statement{SetStatement: &tree.SetStatement{VariableID: "b0", InPlaceOperator: tree.AssignmentInPlaceOperator, Expression: vValExpr(variable.NewNumber(2))}}
		}
	case vKDeclare:
		return &tree.Statement{DeclareStatement: &tree.DeclareStatement{VariableID: "d", Value: vValExpr(variable.NewString("decl"))}}
	case vKCall:
		id := "probe"
		if vBool(tag + ".call.unknown") {
			id = "nosuchfunction"
		}
		return &tree.Statement{CallStatement: &tree.CallStatement{FunctionCall: &tree.FunctionCall{FunctionID: id, Arguments: []*tree.Expression{vValExpr(variable.NewNumber(7))}}}}
	case vKCommand:
		ncmd := 7
		if vParam("CMDV", 0) != 0 {
			ncmd = 9
		}
		if allowBad && vParam("BADARG", 0) != 0 && vChoose(tag+".cmd.badarg", 2) == 1 {
			// a registered command whose last argument fails to evaluate, after two that evaluate fine
			cs := vCommandStmt(variable.NewString("cmd"), variable.NewNumber(3))
			cs.CommandStatement.Elements = append(cs.CommandStatement.Elements, &tree.CommandStatementElement{Expression: vVarExpr("nosuchvar")})
			return cs
		}
		if w.hostBuiltins && vChoose(tag+".cmd.wait", 2) == 1 {
			return vCommandStmt(variable.NewString("wait"), variable.NewNumber(0)) // reaches the host's own wait
		}
		switch vChoose(tag+".cmd", ncmd) {
		case 7, 8:
			// arguments whose values change from one execution to the next: a function call and a variable
			// (or a function call and a literal)
			which := vChoose(tag+".cmdv.second", 2)
			cs := vCommandStmt(variable.NewString("cmdv"))
			cs.CommandStatement.Elements = append(cs.CommandStatement.Elements,
				&tree.CommandStatementElement{Expression: &tree.Expression{FunctionCall: &tree.FunctionCall{FunctionID: "visited_count", Arguments: []*tree.Expression{vValExpr(variable.NewString("n0"))}}}},
				&tree.CommandStatementElement{Expression: vVarExpr("x")})
			if which == 1 {
				cs.CommandStatement.Elements[2].Expression = vValExpr(variable.NewNumber(4))
			}
			return cs
		case 0:
			if vChoose(tag+".stop.arg", 2) == 1 {
				return vCommandStmt(variable.NewString("stop"), variable.NewString("now")) // <<stop now>>: words after the name do not make it another command
			}
			return vCommandStmt(variable.NewString("stop"))
		case 1:
			return vCommandStmt(variable.NewString("cmd"), variable.NewNumber(3), variable.NewString("arg"))
		case 2:
			return vCommandStmt(variable.NewString("fail"))
		case 3:
			return vCommandStmt(variable.NewString("pend"), variable.NewBoolean(true))
		case 4:
			return vCommandStmt(variable.NewString("nosuchcommand"))
		case 5:
			return vCommandStmt(variable.NewNumber(5)) // name is not a string
		default:
			return &tree.Statement{CommandStatement: &tree.CommandStatement{}} // no name
		}
	case vKJumpName:
		// the target is a symbolic 2-byte name: FindNode decides which node (or none) it is
		return &tree.Statement{JumpStatement: &tree.JumpStatement{Expression: vValExpr(variable.NewString(vString(tag+".jump", 2)))}}
	case vKJumpExpr:
		if vBool(tag + ".jumpexpr.illtyped") {
			return &tree.Statement{JumpStatement: &tree.JumpStatement{Expression: vVarExpr("x")}}
		}
		if vParam("JUMPCAT", 0) != 0 && vChoose(tag+".jumpexpr.cat", 2) == 1 {
			// "n" + $c0: a literal on the left, a variable on the right
			op := tree.AdditionBinaryOperator
			return &tree.Statement{JumpStatement: &tree.JumpStatement{Expression: &tree.Expression{Operator: &op, LeftOperand: vValExpr(variable.NewString("n")), RightOperand: vVarExpr("c0")}}}
		}
		return &tree.Statement{JumpStatement: &tree.JumpStatement{Expression: vVarExpr("s0")}}
	}
	return &tree.Statement{} // no field set: "unsupported type of statement"
}

// registerHost registers the host's functions and commands on a runner of this world (the world's own runner,
// or another runner of the same script): they log into the world.
func (w *vWorld) registerHost(dr *DialogueRunner) {
	// functions: probe (logged, may fail), visited/visited_count exactly as NewDialogueRunner registers them
	// (visited / visited_count are the ones the constructor registered)
	dr.AddFunction("probe", func(args []*variable.Value) (*variable.Value, error) {
		idx := len(w.probes)
		w.probes = append(w.probes, vHandlerCall{"probe", args})
		if vBool("probe." + vItoa(idx) + ".fails") {
			return nil, errWaitingForCommandCompletion("probe failed")
		}
		return variable.NewNumber(1), nil
	})
	dr.ConvertAndAddFunction("noreturn", func() {})
	// commands
	dr.AddCommand("cmd", func(args []*variable.Value) <-chan error {
		w.handlers = append(w.handlers, vHandlerCall{"cmd", args})
		ch := make(chan error, 1)
		ch <- nil
		return ch
	})
	dr.AddCommand("cmdv", func(args []*variable.Value) <-chan error {
		var cp []*variable.Value
		for _, a := range args {
			c := vCopyValue(a)
			cp = append(cp, &c)
		}
		w.handlers = append(w.handlers, vHandlerCall{"cmdv", cp})
		ch := make(chan error, 1)
		ch <- nil
		return ch
	})
	dr.AddCommand("fail", func(args []*variable.Value) <-chan error {
		w.handlers = append(w.handlers, vHandlerCall{"fail", args})
		ch := make(chan error, 1)
		ch <- errWaitingForCommandCompletion("handler failed")
		return ch
	})
	dr.AddCommand("pend", func(args []*variable.Value) <-chan error {
		w.handlers = append(w.handlers, vHandlerCall{"pend", args})
		ch := make(chan error, 1)
		w.pending = ch
		return ch
	})
	if w.hostBuiltins {
		// a host that registers a command of its own under the name "stop": <<stop>> stays the dialogue's stop, is
		// never dispatched (the handler would log, and its channel never completes) and ends the dialogue for good
		dr.AddCommand("stop", func(args []*variable.Value) <-chan error {
			w.handlers = append(w.handlers, vHandlerCall{"stop", args})
			return make(chan error, 1)
		})
		// ... and one under the name "wait": it replaces the built-in of that name, as any registration replaces an earlier one
		dr.AddCommand("wait", func(args []*variable.Value) <-chan error {
			w.handlers = append(w.handlers, vHandlerCall{"wait", args})
			ch := make(chan error, 1)
			ch <- nil
			return ch
		})
	}
}

// vNewWorld builds an arbitrary runner state. budget = nesting budget of the head statement;
// allowBad includes script-level faults (ill-typed conditions, unknown names, malformed statements).
func vNewWorld(budget int, allowBad bool) *vWorld {
	w := &vWorld{lines: map[*tree.Statement]string{}}
	w.hostBuiltins = vParam("HOSTSTOP", 0) != 0 && vChoose("host.registers.stop", 2) == 1
	maxDepth := vParam("DEPTH", 2)
	maxQ := vParam("QLEN", 2)

	// ---- dialogue: three nodes of opaque lines (2,1,2 statements); the tracking header is a symbolic
	// 5-byte string, so "never" vs anything else is decided by the solver only when a jump leaves the node ----
	d := &tree.Dialogue{}
	lens := []int{2, 1, 2}
	for i := 0; i < 3; i++ {
		title := "n" + vItoa(i)
		h := map[string]string{"title": title, "tracking": vString("node"+vItoa(i)+".tracking", 5)}
		n := tree.Node{Headers: h, Statements: w.opaqueBody(lens[i])}
		d.Nodes = append(d.Nodes, n)
		w.titles = append(w.titles, title)
	}
	for i := range d.Nodes {
		w.nodes = append(w.nodes, &d.Nodes[i])
	}

	// ---- store: symbolic booleans, a symbolic 2-byte string (jump target by expression), a number ----
	st := variable.NewInMemoryStorer()
	st.SetBooleanValue("b0", vBool("b0"))
	st.SetBooleanValue("b1", vBool("b1"))
	st.SetStringValue("s0", vString("s0", 2))
	st.SetNumberValue("x", vFloat("x"))
	if vParam("JUMPCAT", 0) != 0 {
		st.SetStringValue("c0", vString("c0", 1))
	}
	w.store = st

	// current node: one of the titles, symbolic
	cn := vString("currentNode", 2)
	vAssume(vOr(cn == "n0", vOr(cn == "n1", cn == "n2")))
	dr := vBaseRunner(st)
	dr.dialogue = d
	dr.currentNode = cn
	w.dr = dr
	// visit counts: absent or >= 1 (the invariant jumps maintain); three presence configurations
	viscfg := vParam("VISCFG", -1)
	if viscfg < 0 {
		viscfg = vChoose("viscfg", 3)
	}
	for i := 0; i < 3; i++ {
		if viscfg == 1 || (viscfg == 2 && i != 1) {
			c := vInt("visited" + vItoa(i) + ".count")
			vAssume(vAnd(c >= 1, c < 1<<40))
			dr.visitedNodes[w.titles[i]] = c
		}
	}
	w.registerHost(dr)

	// ---- choice ----
	w.choice = vInt("choice")

	// ---- lastStatement: nil | a line | some non-yielding statement | an option group ----
	last := vParam("LAST", -1)
	if last < 0 {
		last = vChoose("last", 4)
	}
	switch last {
	case 1:
		dr.lastStatement = w.newLineStmt("P")
	case 2:
		dr.lastStatement = &tree.Statement{SetStatement: &tree.SetStatement{VariableID: "x"}}
	case 3:
		nOpts := vParam("OPTS", 2)
		vAssume(vAnd(0 <= w.choice, w.choice < nOpts))
		w.choice = vChoose("choice.concrete", nOpts) // concrete from here on ...
		vAssume(w.choice == vInt("choice"))          // ... and equal to the symbolic input
		g := w.lastGroup(nOpts, w.choice)
		dr.lastStatement = g
		w.waiting = g.ShortcutOptionStatement
	}

	// ---- a command started earlier: nil | still pending | completed with nil | completed with an error ----
	if vParam("CMDCHAN", 0) != 0 && w.waiting == nil {
		state := vChoose("cmdchan", 4)
		if state != 0 {
			// the handler's channel: buffered, or unbuffered with the handler's goroutine blocked in its send
			w.priorUnbuffered = vChoose("cmdchan.unbuffered", 2) == 1
			if w.priorUnbuffered {
				w.prior = make(chan error)
			} else {
				w.prior = make(chan error, 1)
			}
			dr.commandErrChan = w.prior
			switch state {
			case 2:
				w.completePrior(false)
			case 3:
				w.completePrior(true)
			}
		}
	}
	// a snapshot taken at an earlier node entry: nil or arbitrary content
	if vParam("VARSNAP", 0) != 0 && vChoose("varsnap", 2) == 1 {
		dr.variableSnapshot = map[string]variable.Value{"b0": *variable.NewBoolean(vBool("snap.b0")), "old": *variable.NewNumber(vFloat("snap.old"))}
	}

	// ---- continuation stack ----
	depth := vChoose("depth", maxDepth+1)
	// (STACKCAP: the stack lives in a bigger backing array, as after a run that was deeper once)
	stack := make(container.Stack[*statementQueue], 0, vParam("STACKCAP", 0))
	queues := make([]*statementQueue, 0, depth)
	for i := 0; i < depth; i++ {
		ql := vChoose("q"+vItoa(i)+".len", maxQ+1)
		q := &statementQueue{statements: w.opaqueBody(ql), pointer: vChoose("q"+vItoa(i)+".ptr", ql+1)}
		queues = append(queues, q)
		stack.Push(q)
	}
	dr.statementsToRun = stack

	// ---- the head statement(s) ----
	var headSlot **tree.Statement
	var nextSlot **tree.Statement
	if w.waiting != nil {
		if body := w.waiting.Options[w.choice].Statements; len(body) > 0 {
			headSlot = &body[0]
			if len(body) > 1 {
				nextSlot = &body[1]
			}
		}
	}
	if headSlot == nil {
		for i := depth - 1; i >= 0; i-- {
			q := queues[i]
			if q.pointer < len(q.statements) {
				headSlot = &q.statements[q.pointer]
				if q.pointer+1 < len(q.statements) {
					nextSlot = &q.statements[q.pointer+1]
				}
				break
			}
		}
	}
	if headSlot != nil {
		*headSlot = w.vStatement("head", budget, allowBad)
		if nextSlot != nil && vParam("SECOND", 0) != 0 {
			*nextSlot = w.vStatement("second", 1, allowBad)
		}
	}
	return w
}

// completePrior: the handler of the earlier command reports completion now (nil, an error, or by
// closing the channel). On an unbuffered channel that is a goroutine blocked in its send.
func (w *vWorld) completePrior(fail bool) {
	w.priorDone, w.priorFailed = true, fail
	ch := w.prior
	var err error
	if fail {
		err = errWaitingForCommandCompletion("command failed")
	}
	switch {
	case !fail && vChoose("completion.by.close", 2) == 1:
		close(ch)
	case w.priorUnbuffered:
		go func() { ch <- err }()
		vRunGoroutines()
	default:
		ch <- err
	}
}

// ---- abstraction ----

// vFlatten: the continuation as one list, next statement first.
func vFlatten(dr *DialogueRunner) []*tree.Statement {
	var out []*tree.Statement
	st := []*statementQueue(dr.statementsToRun)
	for i := len(st) - 1; i >= 0; i-- {
		q := st[i]
		if q.pointer < 0 || q.pointer > len(q.statements) {
			vAssert(false, "queue pointer out of range")
		}
		out = append(out, q.statements[q.pointer:]...)
	}
	return out
}

func vSameStatements(a, b []*tree.Statement) bool {
	if len(a) != len(b) {
		return false
	}
	for i := range a {
		if a[i] != b[i] {
			return false
		}
	}
	return true
}

func vConcat(a, b []*tree.Statement) []*tree.Statement {
	out := make([]*tree.Statement, 0, len(a)+len(b))
	out = append(out, a...)
	out = append(out, b...)
	return out
}

// ---- reference semantics (big step to the next yield) ----

type vSpecOutcome struct {
	yield   *tree.Statement // line or option group, nil otherwise
	end     bool
	stopped bool
	fail    bool
	pending bool
	K       []*tree.Statement
	node    string
	jumps   []string // titles of the nodes left by successful jumps, in order
	entered []string // titles of the nodes entered
	nCmd    int      // handler invocations expected
	nProbe  int
	cmdv    [][2]float64 // arguments each executed cmdv command is to receive: visited_count("n0"), $x
}

// vSpecEval evaluates the small expression language the world uses, against the *real* store
// content at the time of the call (the spec runs after Next on a pre-state copy; see harness).
type vSpecEnv struct {
	bools   map[string]bool
	strs    map[string]string
	nums    map[string]float64
	probeOK func(i int) bool
	visits  map[string]int // visit counts at the start of the step
	left    []string       // tracked nodes left by the jumps of this step so far
}

func vEnvOf(st *variable.InMemoryStorer) *vSpecEnv {
	e := &vSpecEnv{bools: map[string]bool{}, strs: map[string]string{}, nums: map[string]float64{}}
	for k, v := range st.GetValues() {
		switch {
		case v.Boolean != nil:
			e.bools[k] = *v.Boolean
		case v.String != nil:
			e.strs[k] = *v.String
		case v.Number != nil:
			e.nums[k] = *v.Number
		}
	}
	return e
}

// vSpecCond: (value, ok) of a condition expression of the shapes vCondExpr produces.
func (e *vSpecEnv) cond(x *tree.Expression) (bool, bool) {
	if x == nil {
		return false, false
	}
	switch {
	case x.VariableID != nil:
		b, ok := e.bools[*x.VariableID]
		return b, ok
	case x.Value != nil:
		if x.Value.Boolean != nil {
			return *x.Value.Boolean, true
		}
		return false, false
	case x.NotExpression != nil:
		b, ok := e.cond(x.NotExpression)
		return !b, ok
	case x.FunctionCall != nil && x.FunctionCall.FunctionID == "visited" && len(x.FunctionCall.Arguments) == 1:
		name := *x.FunctionCall.Arguments[0].Value.String
		c := e.visits[name]
		for _, l := range e.left {
			if l == name {
				c++
			}
		}
		return c > 0, true
	}
	return false, false
}

func (w *vWorld) findNode(title string) *tree.Node {
	for _, n := range w.nodes {
		if n.Headers["title"] == title {
			return n
		}
	}
	return nil
}

// vSpecNext: Yarn's sequential semantics on the flattened continuation.
func (w *vWorld) vSpecNext(env *vSpecEnv, K []*tree.Statement, waiting *tree.ShortcutOptionStatement, node string, choice int) vSpecOutcome {
	out := vSpecOutcome{node: node}
	if waiting != nil {
		K = vConcat(waiting.Options[choice].Statements, K)
	}
	for fuel := 0; fuel < 12; fuel++ {
		if len(K) == 0 {
			out.end = true
			out.K = K
			return out
		}
		s := K[0]
		K = K[1:]
		switch {
		case s.LineStatement != nil:
			if w.badLines[s] {
				out.fail = true // faulty markup
				return out
			}
			out.yield, out.K = s, K
			return out
		case s.ShortcutOptionStatement != nil:
			// conditions must be booleans
			for _, o := range s.ShortcutOptionStatement.Options {
				if o.LineStatement.Condition != nil {
					if _, ok := env.cond(o.LineStatement.Condition); !ok {
						out.fail = true
						return out
					}
				}
			}
			out.yield, out.K = s, K
			return out
		case s.IfStatement != nil:
			for _, c := range s.IfStatement.Clauses {
				b, ok := env.cond(c.Condition)
				if !ok {
					out.fail = true
					return out
				}
				if b {
					K = vConcat(c.Statements, K)
					break
				}
			}
		case s.JumpStatement != nil:
			var target string
			x := s.JumpStatement.Expression
			switch {
			case x.Value != nil && x.Value.String != nil:
				target = *x.Value.String
			case x.VariableID != nil:
				t, ok := env.strs[*x.VariableID]
				if !ok {
					out.fail = true
					return out
				}
				target = t
			case x.Operator != nil && *x.Operator == tree.AdditionBinaryOperator && x.LeftOperand.Value != nil && x.RightOperand.VariableID != nil:
				t, ok := env.strs[*x.RightOperand.VariableID]
				if !ok {
					out.fail = true
					return out
				}
				target = *x.LeftOperand.Value.String + t
			default:
				out.fail = true
				return out
			}
			n := w.findNode(target)
			if n == nil {
				out.fail = true
				return out
			}
			out.jumps = append(out.jumps, out.node)
			if w.tracked(out.node) {
				env.left = append(env.left, out.node)
			}
			out.entered = append(out.entered, target)
			K = n.Statements
			out.node = target
		case s.SetStatement != nil:
			st := s.SetStatement
			switch st.VariableID {
			case "x":
				env.nums["x"] = *st.Expression.Value.Number
			case "b1":
				env.bools["b1"] = !env.bools["b1"]
			default:
				out.fail = true // ill-typed assignment to $b0
				return out
			}
		case s.DeclareStatement != nil:
			env.strs["d"] = "decl"
		case s.CallStatement != nil:
			if s.CallStatement.FunctionID != "probe" {
				out.fail = true
				return out
			}
			i := out.nProbe
			out.nProbe++
			if !env.probeOK(i) {
				out.fail = true
				return out
			}
		case s.CommandStatement != nil:
			el := s.CommandStatement.Elements
			if len(el) == 0 || el[0].Expression.Value.String == nil {
				out.fail = true
				return out
			}
			switch *el[0].Expression.Value.String {
			case "stop":
				out.stopped = true
				out.end = true
				out.K = K
				return out
			case "wait": // only generated when the host registered its own (which completes at once)
				out.nCmd++
			case "cmd":
				if len(el) == 3 && el[2].Expression.VariableID != nil {
					out.fail = true // its argument does not evaluate: the handler does not run
					return out
				}
				out.nCmd++
			case "cmdv":
				out.nCmd++
				c := env.visits["n0"]
				for _, left := range out.jumps {
					if left == "n0" && w.tracked("n0") {
						c++
					}
				}
				x, ok := env.nums["x"]
				if v := el[2].Expression.Value; v != nil {
					x, ok = *v.Number, true
				}
				if !ok {
					out.fail = true
					return out
				}
				out.cmdv = append(out.cmdv, [2]float64{float64(c), x})
			case "fail":
				out.nCmd++
				out.fail = true
				return out
			case "pend":
				out.nCmd++
				out.pending = true
				out.K = K
				return out
			default:
				out.fail = true
				return out
			}
		default:
			out.fail = true
			return out
		}
	}
	vAssume(false) // fuel exhausted: outside the bound
	return out
}
