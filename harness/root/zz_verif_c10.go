package ysgo

import (
	"github.com/remieven/ysgo/internal/tree"
	"github.com/remieven/ysgo/variable"
)

// C10: pending commands. The poll prologue of Next from an arbitrary state whose command channel is
// nil / pending / completed (nil or error), with the completion schedule chosen by the solver;
// and the built-in wait command on a virtual clock.

type vRunnerObs struct {
	K       int
	flat    []string
	node    string
	waiting bool
	nH, nP  int
}

// VHCommandPoll: p polls while the command is pending, then completion (nil or error) at a
// solver-chosen moment, then the dialogue resumes exactly as if no command had been there.
func VHCommandPoll() {
	w := vNewWorld(1, false)
	dr := w.dr
	if w.prior == nil {
		return
	}
	vReach("has-channel")
	completed := w.priorDone
	K0 := vFlatten(dr)
	before := w.store.GetValues()
	visits := vCopyVisits(dr.visitedNodes)
	nH, nP := len(w.handlers), len(w.probes)
	last0 := dr.lastStatement
	node0 := dr.currentNode
	willFail := false
	if !completed {
		// polls while pending: no blocking, no side effects, nothing started
		polls := vChoose("polls", 3)
		for i := 0; i < polls; i++ {
			var el *DialogueElement
			var err error
			panicked := vTry(func() { el, err = dr.Next(vInt("pollchoice" + vItoa(i))) })
			vAssert(!panicked, "polling never panics")
			vAssert(el == nil && err == ErrWaitingForCommandCompletion, "while the command is pending Next reports exactly that")
			vAssert(vSameStatements(vFlatten(dr), K0) && dr.lastStatement == last0 && dr.currentNode == node0, "polling does not advance the dialogue")
			vAssert(vStoreEq(before, w.store.GetValues()), "polling changes no variable")
			vAssert(len(w.handlers) == nH && len(w.probes) == nP, "polling starts nothing")
			for _, t := range w.titles {
				vAssert(dr.visitedNodes[t] == visits[t], "polling changes no visit count")
			}
			vReach("polled")
		}
		// the handler's goroutine reports completion now
		willFail = vBool("completes.with.error")
		w.completePrior(willFail)
	} else {
		willFail = w.priorFailed
	}
	if willFail {
		var el *DialogueElement
		var err error
		panicked := vTry(func() { el, err = dr.Next(vInt("errchoice")) })
		vAssert(!panicked, "reporting a command error never panics")
		vAssert(el == nil && err != nil && err != ErrWaitingForCommandCompletion, "a reported error is surfaced")
		vAssert(vSameStatements(vFlatten(dr), K0), "the error does not consume a statement")
		vAssert(len(w.handlers) == nH && len(w.probes) == nP, "surfacing the error starts nothing")
		vReach("error-surfaced")
	}
	// now the dialogue resumes at the statement after the command: an ordinary step, and the
	// error (if any) is not reported a second time
	w.vStep()
	vReach("resumed")
}

// VHWait: <<wait n>> completes no earlier than n seconds after it started (virtual clock under the
// engine, real clock natively).
func VHWait() {
	n := vFloat("n")
	vAssume(n >= 0 && n < 2147483648)
	cs := newCommandStorer()
	t0 := vNowNs()
	ch := cs.call("wait", []*variable.Value{variable.NewNumber(n)})
	var err error
	select {
	case err = <-ch:
		vReach("immediate")
	default:
		vReach("pending")
		vRunGoroutines()
		err = <-ch
	}
	elapsed := vNowNs() - t0
	vAssert(err == nil, "wait completes without error")
	vAssert(float64(elapsed) >= n*1e9-1, "wait n completes no earlier than n seconds after it started")
	// wrong arguments are errors, not panics
	var e2 error
	panicked := vTry(func() { e2 = <-cs.call("wait", vArbArgs("bad", vChoose("badn", 3))) })
	vAssert(!panicked, "wait never panics")
	_ = e2
}

// VHCommandTwice (C17/C10): the same command statement executed twice (as when its node is entered
// again) with a variable changed in between: the handler receives the arguments as they evaluate
// *each time*, literals, variables and unary expressions alike.
func VHCommandTwice() {
	st := variable.NewInMemoryStorer()
	x1, x2 := vFloat("x1"), vFloat("x2")
	st.SetNumberValue("x", x1)
	var calls [][]*variable.Value
	neg := &tree.Expression{NegativeExpression: vVarExpr("x")}
	// with or without a bare variable among the arguments (a statement-level shortcut may depend on it)
	third := vVarExpr("x")
	withBareVariable := vChoose("bare.variable", 2) == 1
	if !withBareVariable {
		third = &tree.Expression{NegativeExpression: &tree.Expression{NegativeExpression: vVarExpr("x")}}
	}
	stmt := &tree.Statement{CommandStatement: &tree.CommandStatement{Elements: []*tree.CommandStatementElement{
		{Expression: vValExpr(variable.NewString("move"))}, {Expression: vValExpr(variable.NewNumber(7))},
		{Expression: third}, {Expression: neg}, {Expression: &tree.Expression{NegativeExpression: vValExpr(variable.NewNumber(3))}},
	}}}
	line := &tree.Statement{LineStatement: &tree.LineStatement{Text: &tree.LineFormattedText{Elements: []*tree.LineFormattedTextElement{{Text: "L"}}}}}
	dr := vRunnerOver(st, stmt, line, stmt, line)
	dr.AddCommand("move", func(args []*variable.Value) <-chan error {
		calls = append(calls, args)
		ch := make(chan error, 1)
		ch <- nil
		return ch
	})
	el, err := dr.Next(0)
	vAssert(err == nil && el != nil && len(calls) == 1, "first execution")
	st.SetNumberValue("x", x2) // the host (or the script) changes the variable between the two executions
	el, err = dr.Next(0)
	vAssert(err == nil && el != nil && len(calls) == 2, "second execution")
	if len(calls) != 2 {
		return
	}
	for i, x := range []float64{x1, x2} {
		a := calls[i]
		vAssert(len(a) == 4 && vKind(a[0]) == 0 && *a[0].Number == 7, "literal argument, every time")
		vAssert(vKind(a[1]) == 0 && vSameFloat(*a[1].Number, x), "a variable argument is evaluated at each execution")
		vAssert(vKind(a[2]) == 0 && vSameFloat(*a[2].Number, -x), "a unary expression over a variable is evaluated at each execution")
		vAssert(vKind(a[3]) == 0 && *a[3].Number == -3, "a negated literal stays what it is")
	}
	vReach("twice")
}
