package ysgo

import (
	"github.com/remieven/ysgo/internal/rng"
	"github.com/remieven/ysgo/variable"
)

// shared helpers of the root-package harnesses

func vItoa(i int) string {
	if i == 0 {
		return "0"
	}
	neg := i < 0
	if neg {
		i = -i
	}
	s := ""
	for i > 0 {
		s = string(rune('0'+i%10)) + s
		i /= 10
	}
	if neg {
		s = "-" + s
	}
	return s
}

// vNewFunctionStorer builds the real built-in table through the real reflection bridge.
func vNewFunctionStorer(seed string) *functionStorer {
	r, err := rng.NewRNG(seed)
	if err != nil {
		vAssume(false)
	}
	return newFunctionStorer(r)
}

func vNum(x float64) *variable.Value  { return variable.NewNumber(x) }
func vBoolV(b bool) *variable.Value   { return variable.NewBoolean(b) }
func vStrV(s string) *variable.Value  { return variable.NewString(s) }

// vKind: 0 number, 1 boolean, 2 string, -1 none/ill-formed
func vKind(v *variable.Value) int {
	if v == nil {
		return -1
	}
	n := 0
	k := -1
	if v.Number != nil {
		n++
		k = 0
	}
	if v.Boolean != nil {
		n++
		k = 1
	}
	if v.String != nil {
		n++
		k = 2
	}
	if n != 1 {
		return -1
	}
	return k
}

// vSameFloat: bitwise equality up to NaN payload.
func vSameFloat(x, y float64) bool { return vFloatSame(x, y) }

// vCopyValue: a deep copy of a script value.
func vCopyValue(v *variable.Value) variable.Value {
	var w variable.Value
	if v == nil {
		return w
	}
	if v.Number != nil {
		x := *v.Number
		w.Number = &x
	}
	if v.Boolean != nil {
		x := *v.Boolean
		w.Boolean = &x
	}
	if v.String != nil {
		x := *v.String
		w.String = &x
	}
	return w
}
