package ysgo

import (
	"strings"

	"github.com/remieven/ysgo/internal/container"
	"github.com/remieven/ysgo/internal/rng"
	"github.com/remieven/ysgo/internal/tree"
	"github.com/remieven/ysgo/variable"
)

// shared helpers of the root-package harnesses

func vItoa(i int) string {
	if i == 0 {
		return "0"
	}
	neg := i < 0
	if neg {
		i = -i
	}
	s := ""
	for i > 0 {
		s = string(rune('0'+i%10)) + s
		i /= 10
	}
	if neg {
		s = "-" + s
	}
	return s
}

// vNewFunctionStorer builds the real built-in table through the real reflection bridge.
func vNewFunctionStorer(seed string) *functionStorer {
	r, err := rng.NewRNG(seed)
	if err != nil {
		vAssume(false)
	}
	return newFunctionStorer(r)
}

func vNum(x float64) *variable.Value  { return variable.NewNumber(x) }
func vBoolV(b bool) *variable.Value   { return variable.NewBoolean(b) }
func vStrV(s string) *variable.Value  { return variable.NewString(s) }

// vKind: 0 number, 1 boolean, 2 string, -1 none/ill-formed
func vKind(v *variable.Value) int {
	if v == nil {
		return -1
	}
	n := 0
	k := -1
	if v.Number != nil {
		n++
		k = 0
	}
	if v.Boolean != nil {
		n++
		k = 1
	}
	if v.String != nil {
		n++
		k = 2
	}
	if n != 1 {
		return -1
	}
	return k
}

// vSameFloat: bitwise equality up to NaN payload.
func vSameFloat(x, y float64) bool { return vFloatSame(x, y) }

// vCopyValue: a deep copy of a script value.
func vCopyValue(v *variable.Value) variable.Value {
	var w variable.Value
	if v == nil {
		return w
	}
	if v.Number != nil {
		x := *v.Number
		w.Number = &x
	}
	if v.Boolean != nil {
		x := *v.Boolean
		w.Boolean = &x
	}
	if v.String != nil {
		x := *v.String
		w.String = &x
	}
	return w
}

// vBaseRunner: every runner the harnesses use comes out of the real constructor and then has the fields
// the harness models overwritten. Building the struct literally would leave fields a change may add
// (and initialise in the constructor) at their zero value and so raise alarms on correct code. Under the
// engine tree.FromReader is the contract stub vStubFromReader; natively the one-line script is parsed.
const vMinimalScript = "title: n0\n---\nL\n===\n"

func vBaseRunner(st variable.Storer) *DialogueRunner {
	vDialogues[vMinimalScript] = &tree.Dialogue{Nodes: []tree.Node{{
		Headers:    map[string]string{"title": "n0"},
		Statements: []*tree.Statement{{LineStatement: &tree.LineStatement{Text: &tree.LineFormattedText{Elements: []*tree.LineFormattedTextElement{{Text: "L"}}}}}},
	}}}
	dr, err := NewDialogueRunner(st, "a", strings.NewReader(vMinimalScript))
	if err != nil || dr == nil {
		vAssume(false)
	}
	return dr
}

// vRunnerAt: a constructor-built runner over dialogue d whose continuation is exactly stmts.
func vRunnerAt(st variable.Storer, d *tree.Dialogue, node string, stmts ...*tree.Statement) *DialogueRunner {
	dr := vBaseRunner(st)
	dr.dialogue = d
	stack := container.Stack[*statementQueue]{}
	stack.Push(&statementQueue{statements: stmts})
	dr.statementsToRun = stack
	dr.currentNode = node
	return dr
}
