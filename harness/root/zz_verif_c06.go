package ysgo

import (
	"github.com/remieven/ysgo/variable"
)

// C06: built-ins on out-of-domain arguments, wrong counts and wrong types, through the real
// function table and bridge: never a panic; and the outcome is a value or an error.

func vArbArgs(tag string, n int) []*variable.Value {
	args := make([]*variable.Value, 0, n)
	for i := 0; i < n; i++ {
		args = append(args, vArbValue(tag+".a"+vItoa(i), vChoose(tag+".a"+vItoa(i)+".kind", 3), 1))
	}
	return args
}

var vBuiltinNames = []string{"dice", "random", "random_range", "round", "round_places", "floor", "ceil", "inc", "dec", "decimal", "integer", "string", "bool", "number", "nosuchfunction"}

// VHBuiltinsDomain: FN-th built-in with 0..3 arguments of arbitrary kinds and values
// (all doubles incl. 0, negatives, non-integers, +-Inf, NaN, beyond int64).
func VHBuiltinsDomain() {
	name := vBuiltinNames[vParam("FN", 0)]
	fs := vNewFunctionStorer("seed")
	n := vChoose("nargs", 4)
	args := vArbArgs("arg", n)
	var v *variable.Value
	var err error
	panicked := vTry(func() { v, err = fs.call(name, args) })
	vAssert(!panicked, "a built-in never panics: "+name)
	vReach("called")
	if err == nil {
		vReach("succeeded")
		if name != "nosuchfunction" {
			vAssert(v != nil && vKind(v) >= 0, "a built-in that succeeds returns a value: "+name)
		}
	}
	if name == "nosuchfunction" {
		vAssert(err != nil, "an unknown function is an error")
	}
	if err == nil && name == "random" {
		r := *v.Number
		vAssert(r >= 0 && r < 1, "random() in [0,1)")
	}
}
