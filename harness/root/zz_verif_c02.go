package ysgo

import (
	"math"

	"github.com/remieven/ysgo/internal/tree"
	"github.com/remieven/ysgo/variable"
)

// C02: operator table and evaluation order, on the real evaluateExpression.

// vArbValue: a value of kind k (0 number over all doubles, 1 boolean, 2 string of 0..maxLen bytes).
// vNumbersAsInts: numbers are integer-valued doubles in [-9, 9] instead of arbitrary doubles.
var vNumbersAsInts bool

func vArbValue(name string, k int, maxLen int) *variable.Value {
	switch k {
	case 0:
		if vNumbersAsInts {
			return variable.NewNumber(float64(vIntRange(name+".i", -9, 9)))
		}
		return variable.NewNumber(vFloat(name + ".n"))
	case 1:
		return variable.NewBoolean(vBool(name + ".b"))
	default:
		n := vChoose(name+".len", maxLen+1)
		return variable.NewString(vString(name+".s", n))
	}
}

type vSpecResult struct {
	isErr bool
	kind  int
	num   float64
	b     bool
	s     string
}

// vSpecBinary is the operator table of the property statement, written as a table on
// (operator, kinds) rather than as the implementation's switch.
func vSpecBinary(op int, l, r *variable.Value) vSpecResult {
	lk, rk := vKind(l), vKind(r)
	bad := vSpecResult{isErr: true}
	if lk < 0 {
		return bad
	}
	// short-circuit operators look at the left operand first
	if op == tree.AndBinaryOperator || op == tree.OrBinaryOperator {
		if lk != 1 {
			return bad
		}
		if op == tree.AndBinaryOperator && !*l.Boolean {
			return vSpecResult{kind: 1, b: false}
		}
		if op == tree.OrBinaryOperator && *l.Boolean {
			return vSpecResult{kind: 1, b: true}
		}
		if rk != 1 {
			return bad
		}
		return vSpecResult{kind: 1, b: *r.Boolean}
	}
	if rk < 0 || lk != rk {
		return bad
	}
	switch lk {
	case 0:
		a, b := *l.Number, *r.Number
		switch op {
		case tree.AdditionBinaryOperator:
			return vSpecResult{kind: 0, num: a + b}
		case tree.SubtractionBinaryOperator:
			return vSpecResult{kind: 0, num: a - b}
		case tree.MultiplicationBinaryOperator:
			return vSpecResult{kind: 0, num: a * b}
		case tree.DivisionBinaryOperator:
			return vSpecResult{kind: 0, num: a / b}
		case tree.ModuloBinaryOperator:
			return vSpecResult{kind: 0, num: math.Mod(a, b)}
		case tree.LessBinaryOperator:
			return vSpecResult{kind: 1, b: a < b}
		case tree.LessThanEqualsBinaryOperator:
			return vSpecResult{kind: 1, b: a <= b}
		case tree.GreaterBinaryOperator:
			return vSpecResult{kind: 1, b: a > b}
		case tree.GreaterThanEqualsBinaryOperator:
			return vSpecResult{kind: 1, b: a >= b}
		case tree.EqualsBinaryOperator:
			return vSpecResult{kind: 1, b: a == b}
		case tree.NotEqualsBinaryOperator:
			return vSpecResult{kind: 1, b: a != b}
		}
	case 1:
		a, b := *l.Boolean, *r.Boolean
		switch op {
		case tree.EqualsBinaryOperator:
			return vSpecResult{kind: 1, b: a == b}
		case tree.NotEqualsBinaryOperator:
			return vSpecResult{kind: 1, b: a != b}
		case tree.XorBinaryOperator:
			return vSpecResult{kind: 1, b: a != b}
		}
	case 2:
		a, b := *l.String, *r.String
		switch op {
		case tree.AdditionBinaryOperator:
			return vSpecResult{kind: 2, s: a + b}
		case tree.EqualsBinaryOperator:
			return vSpecResult{kind: 1, b: a == b}
		case tree.NotEqualsBinaryOperator:
			return vSpecResult{kind: 1, b: a != b}
		}
	}
	return bad
}

func vCheckAgainstSpec(got *variable.Value, err error, want vSpecResult, what string) {
	vAssert(!(got == nil && err == nil), what+": a value or an error, never neither")
	vAssert((err != nil) == want.isErr, what+": error exactly when the table says so")
	if err != nil || want.isErr {
		return
	}
	vAssert(vKind(got) == want.kind, what+": result type")
	switch want.kind {
	case 0:
		vAssert(vSameFloat(*got.Number, want.num), what+": numeric result")
	case 1:
		vAssert(*got.Boolean == want.b, what+": boolean result")
	case 2:
		vAssert(*got.String == want.s, what+": string result")
	}
}

// VHBinaryTable: one binary node, every operator code (all ints), every pair of operand kinds.
func VHBinaryTable() {
	op := vInt("op")
	lk := vChoose("lk", 3)
	rk := vChoose("rk", 3)
	if lk == 0 && rk == 0 {
		// numbers: arbitrary doubles, or integer-valued ones in [-9, 9] (for which % is decided exactly, see math.Mod)
		vNumbersAsInts = vChoose("numbers.intvalued", 2) == 1
	}
	l := vArbValue("l", lk, 2)
	r := vArbValue("r", rk, 2)
	opc := op
	e := &tree.Expression{Operator: &opc, LeftOperand: &tree.Expression{Value: l}, RightOperand: &tree.Expression{Value: r}}
	store := variable.NewInMemoryStorer()
	fs := &vProbeCaller{}
	want := vSpecBinary(op, l, r) // computed before the evaluation, from the operands as written
	l0, r0 := vCopyValue(l), vCopyValue(r)
	got, err := evaluateExpression(e, store, fs)
	vReach("evaluated")
	vCheckAgainstSpec(got, err, want, "binary")
	vAssert(vValueEq(*l, l0) && vValueEq(*r, r0), "evaluating an expression does not change its operands (the script is not rewritten)")
	got2, err2 := evaluateExpression(e, store, fs)
	vCheckAgainstSpec(got2, err2, want, "binary, evaluated again")
	if 0 <= op && op <= tree.XorBinaryOperator {
		vReach("known-operator")
	} else {
		vReach("unknown-operator")
		vAssert(err != nil, "an unknown operator code is an error")
	}
}

// VHUnary: -e and not e for every operand kind.
func VHUnary() {
	k := vChoose("k", 3)
	v := vArbValue("v", k, 2)
	store := variable.NewInMemoryStorer()
	fs := &vProbeCaller{}
	v0 := vCopyValue(v)
	negExpr := &tree.Expression{NegativeExpression: &tree.Expression{Value: v}}
	notExpr := &tree.Expression{NotExpression: &tree.Expression{Value: v}}
	for round := 0; round < 2; round++ { // the same parsed expression is evaluated every time its statement runs
		vUnaryOnce(negExpr, notExpr, v, k, store, fs)
		vAssert(vValueEq(*v, v0), "evaluating a unary expression does not change its operand")
	}
	vReach("unary")
}

func vUnaryOnce(negExpr, notExpr *tree.Expression, v *variable.Value, k int, store *variable.InMemoryStorer, fs *vProbeCaller) {
	neg, err := evaluateExpression(negExpr, store, fs)
	vAssert(!(neg == nil && err == nil), "neg: value or error")
	vAssert((err != nil) == (k != 0), "unary minus errs exactly on non-numbers")
	if err == nil {
		vAssert(vKind(neg) == 0 && vSameFloat(*neg.Number, -*v.Number), "unary minus negates")
	}
	not, err := evaluateExpression(notExpr, store, fs)
	vAssert(!(not == nil && err == nil), "not: value or error")
	vAssert((err != nil) == (k != 1), "not errs exactly on non-booleans")
	if err == nil {
		vAssert(vKind(not) == 1 && *not.Boolean == !*v.Boolean, "not negates")
	}
}

// ---- evaluation order ----

// vProbeCaller is a functionCaller that logs every call and answers from symbolic inputs.
type vProbeCaller struct {
	log     []string // function ids in call order
	argLens []int
	fail    map[string]bool
	kinds   map[string]int
	firstArg []*variable.Value
	args    [][]variable.Value // copies of the arguments each call received
	rets    []*variable.Value  // what each call returned (nil if it failed)
	quiet   bool               // answer 1 without consuming inputs (warm-up calls)
}

func (p *vProbeCaller) call(functionID string, args []*variable.Value) (*variable.Value, error) {
	idx := len(p.log)
	p.log = append(p.log, functionID)
	p.argLens = append(p.argLens, len(args))
	if len(args) > 0 {
		p.firstArg = append(p.firstArg, args[0])
	} else {
		p.firstArg = append(p.firstArg, nil)
	}
	var cp []variable.Value
	for _, a := range args {
		cp = append(cp, vCopyValue(a))
	}
	p.args = append(p.args, cp)
	if p.quiet {
		p.rets = append(p.rets, nil)
		return variable.NewNumber(1), nil
	}
	if vBool("probe." + functionID + "." + vItoa(idx) + ".fail") {
		p.rets = append(p.rets, nil)
		return nil, errWaitingForCommandCompletion("probe failure")
	}
	k := vChoose("probe."+functionID+"."+vItoa(idx)+".kind", 3)
	ret := vArbValue("probe."+functionID+"."+vItoa(idx), k, 1)
	p.rets = append(p.rets, ret)
	return ret, nil
}

// argsAre: call idx received exactly these values, in order.
func (p *vProbeCaller) argsAre(idx int, want ...*variable.Value) bool {
	if idx >= len(p.args) || len(p.args[idx]) != len(want) {
		return false
	}
	for i, w := range want {
		if w == nil || !vValueEq(p.args[idx][i], *w) {
			return false
		}
	}
	return true
}

func vCallExpr(id string, args ...*tree.Expression) *tree.Expression {
	return &tree.Expression{FunctionCall: &tree.FunctionCall{FunctionID: id, Arguments: args}}
}

// VHEvalOrder: (f0(a(), b()) OP f1()) with OP in {and, or, +, ==}: arguments left to right exactly once;
// the right operand of and/or is evaluated iff the left does not decide; a failing or ill-typed
// right operand is invisible when short-circuited.
func VHEvalOrder() {
	ops := []int{tree.AndBinaryOperator, tree.OrBinaryOperator, tree.AdditionBinaryOperator, tree.EqualsBinaryOperator, tree.XorBinaryOperator}
	op := ops[vChoose("op", len(ops))]
	lit := func(x float64) *tree.Expression { return vValExpr(variable.NewNumber(x)) }
	left := vCallExpr("L", vCallExpr("a", lit(1)), vCallExpr("b", lit(2), lit(3)))
	right := vCallExpr("R", vCallExpr("c", lit(4)))
	e := &tree.Expression{Operator: &op, LeftOperand: left, RightOperand: right}
	store := variable.NewInMemoryStorer()
	// other calls were evaluated before in this process (any state evaluation keeps across calls exists by now)
	if vChoose("warm", 2) == 1 {
		evaluateExpression(vCallExpr("W", vCallExpr("w", lit(9), lit(9)), lit(8), lit(7)), store, &vProbeCaller{quiet: true})
	}
	p := &vProbeCaller{}
	got, err := evaluateExpression(e, store, p)
	vAssert(!(got == nil && err == nil), "order: value or error")
	// reference order
	n := len(p.log)
	vAssert(n >= 1 && p.log[0] == "a", "first call is the first argument of the left operand")
	vAssert(n >= 1 && p.argsAre(0, vNum(1)), "a call receives the values of its arguments (a)")
	if n >= 2 {
		vAssert(p.log[1] == "b", "second call is the second argument")
		vAssert(p.argsAre(1, vNum(2), vNum(3)), "a call receives the values of its arguments (b)")
	}
	if n >= 3 {
		vAssert(p.log[2] == "L" && p.argLens[2] == 2, "then the left call with both arguments")
		vAssert(p.argsAre(2, p.rets[0], p.rets[1]), "a call receives the values its argument calls returned, in order")
	}
	if n >= 4 {
		vAssert(p.log[3] == "c", "then the argument of the right operand")
		vAssert(p.argsAre(3, vNum(4)), "a call receives the values of its arguments (c)")
	}
	if n >= 5 {
		vAssert(p.log[4] == "R" && p.argLens[4] == 1, "then the right call")
		vAssert(p.argsAre(4, p.rets[3]), "a call receives the value its argument call returned")
	}
	vAssert(n <= 5, "nothing is evaluated twice")
	if n < 3 {
		vAssert(err != nil, "evaluation stops early only on an error")
	}
	if n == 3 && err == nil {
		// right operand not evaluated: only legal for a deciding and/or
		vReach("short-circuit")
		vAssert(op == tree.AndBinaryOperator || op == tree.OrBinaryOperator, "only and/or may skip the right operand")
		vAssert(vKind(got) == 1 && *got.Boolean == (op == tree.OrBinaryOperator), "short-circuit value")
	}
	if n == 5 {
		vReach("both-evaluated")
	}
}
