package ysgo

import (
	"math"

	"github.com/remieven/ysgo/variable"
)

// C19: numeric and conversion built-ins, called by name through the real function table
// and reflection bridge (functionStorer.call), for every double |x| < 2^52.

const vTwo52 = 4503599627370496.0

// vCall1 calls a built-in with one argument -- twice: these functions are functions of their argument (the same
// call again has the same outcome, whatever happened before) and they leave the argument alone (it may be a
// literal of the parsed script).
func vCall1(fs *functionStorer, name string, arg *variable.Value) (*variable.Value, bool) {
	arg0 := vCopyValue(arg)
	v, err := fs.call(name, []*variable.Value{arg})
	vAssert(vValueEq(*arg, arg0), name+" does not change its argument")
	v2, err2 := fs.call(name, []*variable.Value{arg})
	vAssert((err == nil) == (err2 == nil), name+": the same call again fails or succeeds as the first time")
	if err == nil && err2 == nil && v != nil {
		vAssert(v2 != nil && vValueEq(*v, *v2), name+": the same call again returns the same value")
	}
	return v, err == nil
}

func vCallNum(fs *functionStorer, name string, x float64) float64 {
	v, ok := vCall1(fs, name, vNum(x))
	vAssert(ok, name+" must not fail on a number")
	vAssert(vKind(v) == 0, name+" must return a number")
	return *v.Number
}

// VHNumeric: one obligation family per built-in (param FN selects it so that instances run in parallel).
func VHNumeric() {
	x := vFloat("x")
	vAssume(x == x && -vTwo52 < x && x < vTwo52)
	fs := vNewFunctionStorer("a")
	switch vParam("FN", 0) {
	case 0:
		r := vCallNum(fs, "floor", x)
		vReach("floor")
		vAssert(r <= x && x < r+1, "floor(x) <= x < floor(x)+1")
		vAssert(r == math.Ceil(r), "floor(x) is an integer")
	case 1:
		r := vCallNum(fs, "ceil", x)
		vReach("ceil")
		vAssert(r-1 < x && x <= r, "ceil(x)-1 < x <= ceil(x)")
		vAssert(r == math.Floor(r), "ceil(x) is an integer")
	case 2:
		r := vCallNum(fs, "inc", x)
		vReach("inc")
		vAssert(r == math.Floor(r), "inc(x) is an integer")
		vAssert(r > x, "inc(x) > x")
		vAssert(r-1 <= x, "inc(x) is the least such integer")
	case 3:
		r := vCallNum(fs, "dec", x)
		vReach("dec")
		vAssert(r == math.Floor(r), "dec(x) is an integer")
		vAssert(r < x, "dec(x) < x")
		vAssert(r+1 >= x, "dec(x) is the greatest such integer")
	case 4:
		r := vCallNum(fs, "integer", x)
		d := vCallNum(fs, "decimal", x)
		vReach("integer")
		vAssert(r == math.Floor(r), "integer(x) is an integer")
		vAssert(math.Abs(r) <= math.Abs(x) && math.Abs(x)-math.Abs(r) < 1, "integer(x) truncates toward zero")
		vAssert((x >= 0 && r >= 0) || (x <= 0 && r <= 0), "integer(x) keeps the sign")
		vAssert(r+d == x, "integer(x)+decimal(x) == x")
	case 5:
		r := vCallNum(fs, "round", x)
		vReach("round")
		vAssert(r == math.Floor(r), "round(x) is an integer")
		// |r - x| <= 0.5 in exact arithmetic: r is an integer below 2^52, so r-0.5 and r+0.5 are exact doubles,
		// whereas the double subtraction r-x may itself round (r = 1, x = 0.49999999999999994 gives exactly 0.5)
		vAssert(r-0.5 <= x && x <= r+0.5, "round(x) is within 0.5 of x")
	}
}

// VHRoundPlaces: |round_places(x,n) - x| <= 0.5*10^-n (+ 2 ulp of x, because the implementation
// rounds twice in binary), n concrete per instance, |x| < 2^B.
func VHRoundPlaces() {
	n := vParam("N", 2)
	b := vParam("B", 10)
	x := vFloat("x")
	lim := math.Pow(2, float64(b))
	vAssume(x == x && -lim < x && x < lim)
	fs := vNewFunctionStorer("a")
	ax, an := vNum(x), vNum(float64(n))
	v, err := fs.call("round_places", []*variable.Value{ax, an})
	vAssert(err == nil && vKind(v) == 0, "round_places returns a number")
	vAssert(vSameFloat(*ax.Number, x) && *an.Number == float64(n), "round_places does not change its arguments")
	r := *v.Number
	vReach("round_places")
	half := 0.5 / math.Pow10(n)
	slack := math.Abs(x) * (1.0 / (1 << 51)) // 2 ulp of x, upper bound
	vAssert(math.Abs(r-x) <= half+slack, "round_places(x,n) within half a unit of the n-th place")
}

// VHConversions: string/number/bool conversions.
func VHConversions() {
	fs := vNewFunctionStorer("a")
	switch vParam("CASE", 0) {
	case 0: // identity on same-typed values
		x := vFloat("x")
		v, ok := vCall1(fs, "number", vNum(x))
		vAssert(ok && vKind(v) == 0 && vSameFloat(*v.Number, x), "number(x) == x")
		b := vBool("b")
		w, ok := vCall1(fs, "bool", vBoolV(b))
		vAssert(ok && vKind(w) == 1 && *w.Boolean == b, "bool(b) == b")
		s := vString("s", vChoose("slen", 4))
		u, ok := vCall1(fs, "string", vStrV(s))
		vAssert(ok && vKind(u) == 2 && *u.String == s, "string(s) == s")
		vReach("identity")
	case 1: // bool(string(b)) == b
		b := vBool("b")
		s, ok := vCall1(fs, "string", vBoolV(b))
		vAssert(ok && vKind(s) == 2, "string(b) is a string")
		w, ok := vCall1(fs, "bool", s)
		vAssert(ok && vKind(w) == 1 && *w.Boolean == b, "bool(string(b)) == b")
		vReach("bool-roundtrip")
	case 2: // number(string(x)) == x for integral x with up to 4 digits (digits are symbolic)
		i := vIntRange("i", -999, 9999)
		x := float64(i)
		s, ok := vCall1(fs, "string", vNum(x))
		vAssert(ok && vKind(s) == 2, "string(x) is a string")
		w, ok := vCall1(fs, "number", s)
		vAssert(ok && vKind(w) == 0 && *w.Number == x, "number(string(x)) == x for integral x")
		vReach("number-roundtrip")
	case 5: // number(string(x)) == x on a finite set of non-integral and large values (the digits are strconv's:
		// this part is enumeration, it pins the formats string() produces -- plain, negative, exponent +NN and -NN)
		xs := []float64{0.5, -2.25, 0.1, 1234567.5, -1234567.25, 1e21, 1.5e300, -2.5e-7, 1e-05, 123456789012345680, 0.30000000000000004, 5e-324, 1.7976931348623157e308, 999999.5, 1000000.5}
		x := xs[vChoose("x", len(xs))]
		s, ok := vCall1(fs, "string", vNum(x))
		vAssert(ok && vKind(s) == 2, "string(x) is a string")
		w, ok := vCall1(fs, "number", s)
		vAssert(ok && vKind(w) == 0 && *w.Number == x, "number(string(x)) == x")
		vReach("number-roundtrip-nonintegral")
	case 3: // bool(s) errs outside ParseBool's accepted spellings, succeeds inside
		s := vString("s", vChoose("slen", 6))
		w, ok := vCall1(fs, "bool", vStrV(s))
		isT := s == "1" || s == "t" || s == "T" || s == "TRUE" || s == "true" || s == "True"
		isF := s == "0" || s == "f" || s == "F" || s == "FALSE" || s == "false" || s == "False"
		vAssert(ok == (isT || isF), "bool(s) is an error exactly for strings that are not booleans")
		if ok {
			vAssert(vKind(w) == 1 && *w.Boolean == isT, "bool(s) value")
		}
		vReach("bool-of-string")
	case 4: // number(s): digit-free, non-special strings are errors; NUMBER-shaped strings succeed
		n := vChoose("slen", 5)
		s := vString("s", n)
		_, ok := vCall1(fs, "number", vStrV(s))
		hasDigit := false
		for i := 0; i < n; i++ {
			if '0' <= s[i] && s[i] <= '9' {
				hasDigit = true
			}
		}
		if !hasDigit && !vSpecialFloatName(s) {
			vAssert(!ok, "number(s) is an error for a string without digits")
		}
		if vNumberShaped(s) {
			vAssert(ok, "number(s) succeeds on decimal literals")
		}
		vReach("number-of-string")
	}
}

func vLowerByte(c byte) byte {
	if 'A' <= c && c <= 'Z' {
		return c + 32
	}
	return c
}

// vSpecialFloatName: [+-]?(inf|infinity|nan), case-insensitive.
func vSpecialFloatName(s string) bool {
	if len(s) > 0 && (s[0] == '+' || s[0] == '-') {
		s = s[1:]
	}
	l := make([]byte, len(s))
	for i := 0; i < len(s); i++ {
		l[i] = vLowerByte(s[i])
	}
	t := string(l)
	return t == "inf" || t == "infinity" || t == "nan"
}

// vNumberShaped: -?digits(.digits)?  (the grammar's NUMBER, optionally negated)
func vNumberShaped(s string) bool {
	i := 0
	if i < len(s) && s[i] == '-' {
		i++
	}
	d := 0
	for i < len(s) && '0' <= s[i] && s[i] <= '9' {
		i++
		d++
	}
	if d == 0 {
		return false
	}
	if i == len(s) {
		return true
	}
	if s[i] != '.' {
		return false
	}
	i++
	d = 0
	for i < len(s) && '0' <= s[i] && s[i] <= '9' {
		i++
		d++
	}
	return d > 0 && i == len(s)
}
