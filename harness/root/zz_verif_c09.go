package ysgo

import (
	"github.com/remieven/ysgo/internal/rng"
)

// C09 (range part): for every seed value and every value rand may return by contract,
// dice(n) in [1,n], random_range(a,b) in [a,b], random() in [0,1) -- decided on the integer level
// on the functions the built-in table registers.

func VHRandomContracts() {
	r, err := rng.NewRNG(vString("seed", 1+vChoose("seedlen", 3)))
	if err != nil {
		vReach("bad-seed")
		return
	}
	switch vChoose("fn", 3) {
	case 0:
		n := vInt("n")
		var v int
		var e error
		panicked := vTry(func() { v, e = checkedDice(r)(n) })
		vAssert(!panicked, "dice never panics")
		vAssert((e != nil) == (n < 1), "dice errs exactly when there is no side")
		if e == nil {
			vReach("dice")
			vAssert(1 <= v && v <= n, "dice(n) in [1,n]")
		}
	case 1:
		a, b := vInt("a"), vInt("b")
		var v int
		var e error
		panicked := vTry(func() { v, e = checkedRandomRange(r)(a, b) })
		vAssert(!panicked, "random_range never panics")
		if a > b {
			vAssert(e != nil, "random_range on an empty range is an error")
		}
		if e == nil {
			vReach("random_range")
			vAssert(a <= v && v <= b, "random_range(a,b) in [a,b]")
		}
		if a <= b && b-a >= 0 && b-a+1 > 0 {
			vAssert(e == nil, "random_range succeeds on every representable non-empty range")
		}
	case 2:
		v := random(r)()
		vReach("random")
		vAssert(0 <= v && v < 1, "random() in [0,1)")
	}
}
