package ysgo

import (
	"github.com/remieven/ysgo/internal/rng"
	"github.com/remieven/ysgo/variable"
)

// C09 (range part): for every seed value and every value rand may return by contract,
// dice(n) in [1,n], random_range(a,b) in [a,b], random() in [0,1) -- called by name through the real table and
// bridge with 32-bit integer arguments; the integer results are recovered exactly (vExactInt).

func VHRandomContracts() {
	fs := vNewFunctionStorer(vString("seed", 1+vChoose("seedlen", 3)))
	switch vChoose("fn", 3) {
	case 0:
		n := int(vInt32("n"))
		var v *variable.Value
		var e error
		panicked := vTry(func() { v, e = fs.call("dice", []*variable.Value{vNum(float64(n))}) })
		vAssert(!panicked, "dice never panics")
		vAssert((e != nil) == (n < 1), "dice errs exactly when there is no side")
		if e == nil {
			vReach("dice")
			vAssert(vKind(v) == 0, "dice returns a number")
			r, ok := vExactInt(*v.Number)
			vAssert(ok && 1 <= r && r <= n, "dice(n) is an integer in [1,n]")
		}
	case 1:
		a, b := int(vInt32("a")), int(vInt32("b"))
		var v *variable.Value
		var e error
		panicked := vTry(func() { v, e = fs.call("random_range", []*variable.Value{vNum(float64(a)), vNum(float64(b))}) })
		vAssert(!panicked, "random_range never panics")
		vAssert((e != nil) == (a > b), "random_range errs exactly on an empty range")
		if e == nil {
			vReach("random_range")
			vAssert(vKind(v) == 0, "random_range returns a number")
			r, ok := vExactInt(*v.Number)
			vAssert(ok && a <= r && r <= b, "random_range(a,b) is an integer in [a,b]")
		}
	case 2:
		v, e := fs.call("random", nil)
		vAssert(e == nil && vKind(v) == 0, "random() returns a number")
		vReach("random")
		vAssert(0 <= *v.Number && *v.Number < 1, "random() in [0,1)")
	}
}

// VHDeterminism (C09, relational): two function tables built from the same non-empty seed, driven with
// the same calls, give the same results and errors -- with an unrelated third generator used in between,
// independent environment answers for each copy (global rand source, clock) and a solver-chosen map
// iteration order in the registration loop. The stream of math/rand for a seed is an uninterpreted
// function of (seed, call index, bound): equal seeds and call sequences give equal values by the
// stdlib's contract, and any use of another source of randomness makes the copies diverge.
func VHDeterminism() {
	seed := vString("seed", 1+vChoose("seedlen", 2))
	a := vNewFunctionStorer(seed)
	other := vNewFunctionStorer("zz")
	b := vNewFunctionStorer(seed)
	calls := vParam("CALLS", 2)
	if vChoose("wide-first", 2) == 1 {
		// a draw from a wide fixed range first: generators that differ give different values here whatever the
		// arguments of the later calls are (a native replay compares real streams, which must not agree by chance)
		ra, ea := a.call("dice", []*variable.Value{vNum(1000003)})
		rb, eb := b.call("dice", []*variable.Value{vNum(1000003)})
		vAssert(ea == nil && eb == nil && vKind(ra) == 0 && vKind(rb) == 0, "dice(1000003) succeeds")
		if ea == nil && eb == nil && vKind(ra) == 0 && vKind(rb) == 0 {
			ia, oka := vExactInt(*ra.Number)
			ib, okb := vExactInt(*rb.Number)
			vAssert(oka && okb && ia == ib, "same first draw for the same seed")
		}
	}
	for i := 0; i < calls; i++ {
		tag := "call" + vItoa(i)
		var name string
		var args []*variable.Value
		switch vChoose(tag+".fn", 3) {
		case 0:
			name = "dice"
			args = []*variable.Value{vNum(float64(int(vInt32(tag + ".n"))))}
		case 1:
			name = "random_range"
			args = []*variable.Value{vNum(float64(int(vInt32(tag + ".a")))), vNum(float64(int(vInt32(tag + ".b"))))}
		case 2:
			name = "random"
		}
		ra, ea := a.call(name, args)
		if vChoose(tag+".interleave", 2) == 1 {
			other.call("dice", []*variable.Value{vNum(6)}) // an unrelated runner runs in between
		}
		rb, eb := b.call(name, args)
		vAssert((ea != nil) == (eb != nil), "same errors for the same seed and calls")
		if ea == nil && eb == nil {
			vAssert(vKind(ra) == 0 && vKind(rb) == 0, "random results are numbers")
			if name == "random" {
				vAssert(vSameFloat(*ra.Number, *rb.Number), "same random results for the same seed and calls")
			} else {
				// dice / random_range return integers: compared as the integers they were converted from
				ia, oka := vExactInt(*ra.Number)
				ib, okb := vExactInt(*rb.Number)
				vAssert(oka && okb && ia == ib, "same random results for the same seed and calls (integers)")
			}
			vReach("compared")
		}
	}
}

// vSource: a math/rand Source whose successive values are solver-chosen 63-bit integers.
type vSource struct {
	n, max int
}

func (s *vSource) Int63() int64 {
	vAssume(s.n < s.max) // at most max draws: longer rejection loops are outside the bound
	v := int64(vInt("source.value" + vItoa(s.n)))
	vAssume(v >= 0)
	s.n++
	return v
}

func (s *vSource) Seed(int64) {}

// VHRandomStreams (C09 range part, on the real generator arithmetic): the built-in table over an RNG whose
// underlying source returns arbitrary 63-bit values: for every such stream (up to DRAWS draws per call)
// dice(n) is in [1,n], random_range(a,b) in [a,b] and random() in [0,1). Unlike VHRandomContracts this runs
// math/rand's own Intn/Float64 code, so a counterexample is a concrete stream that the native replay feeds to it.
func VHRandomStreams() {
	src := &vSource{max: vParam("DRAWS", 2)}
	fs := newFunctionStorer(rng.VNewRNGWithSource(src))
	switch vParam("FN", 0) {
	case 0:
		n := int(vByte("n")) // the generator divides by n: symbolic-by-symbolic division is only tractable for a narrow n
		vAssume(n >= 1)
		v, e := fs.call("dice", []*variable.Value{vNum(float64(n))})
		vAssert(e == nil && vKind(v) == 0, "dice(n) succeeds for n >= 1")
		if e == nil {
			r, ok := vExactInt(*v.Number)
			vAssert(ok && 1 <= r && r <= n, "dice(n) is an integer in [1,n] for every stream of the generator")
			vReach("dice")
		}
	case 1:
		a := int(vInt32("a"))
		b := a + int(vByte("width")) // ranges of 1..256 values anywhere in the 32-bit integers
		v, e := fs.call("random_range", []*variable.Value{vNum(float64(a)), vNum(float64(b))})
		vAssert(e == nil && vKind(v) == 0, "random_range(a,b) succeeds for a <= b")
		if e == nil {
			r, ok := vExactInt(*v.Number)
			vAssert(ok && a <= r && r <= b, "random_range(a,b) is an integer in [a,b] for every stream of the generator")
			vReach("random_range")
		}
	case 2:
		v, e := fs.call("random", nil)
		vAssert(e == nil && vKind(v) == 0, "random() returns a number")
		if e == nil {
			vAssert(0 <= *v.Number && *v.Number < 1, "random() is in [0,1) for every stream of the generator")
			vReach("random")
		}
	case 3:
		// two draws from the same generator whose ranges share a bound: what the first leaves behind (memoised sizes,
		// limits, buffers) must not widen or shift the second
		n := 1 + int(vByte("n")&31)
		a := 1 + int(vByte("a")&31)
		vAssume(a <= n)
		v, e := fs.call("dice", []*variable.Value{vNum(float64(n))})
		vAssert(e == nil && vKind(v) == 0, "dice(n) succeeds for n >= 1")
		var w *variable.Value
		if vChoose("same-upper", 2) == 1 {
			w, e = fs.call("random_range", []*variable.Value{vNum(float64(a)), vNum(float64(n))})
		} else {
			w, e = fs.call("random_range", []*variable.Value{vNum(float64(1)), vNum(float64(a))})
			n, a = a, 1
		}
		vAssert(e == nil && vKind(w) == 0, "random_range(a,b) succeeds for a <= b")
		if e == nil && vKind(w) == 0 {
			r, ok := vExactInt(*w.Number)
			vAssert(ok && a <= r && r <= n, "random_range(a,b) after another draw is an integer in [a,b]")
			vReach("second-draw")
		}
	}
}

// VHCrossProcess (C09, relational, across processes): a function table built from a seed and driven with some
// calls gives the same results in another process -- one whose package-level state was initialised afresh and
// whose environment (clock, global random source, hash seeds, process id) answers independently. Seed lengths
// include those beyond 12 characters, where the seed's value as a radix-36 number no longer fits an int64.
func VHCrossProcess() {
	lens := []int{1, 2, 3, 12, 13, 14, 20}
	seed := vString("seed", lens[vChoose("seedlen", vParam("SEEDLENS", 5))])
	// every character is read by a branching digit/letter test: all but the last two are letters, so that the
	// paths do not double per character (stated bound: long seeds are lowercase words ending in any two characters)
	for i := 0; i+2 < len(seed); i++ {
		vAssume('a' <= seed[i] && seed[i] <= 'z')
	}
	calls := vParam("CALLS", 1)
	fn := vChoose("fn", 3)
	// wide fixed ranges: a native replay compares real streams, which must not coincide by chance
	n, a, b := 1000003, -1000003, 1000003
	run := func() int64 {
		fs := vNewFunctionStorer(seed)
		last := int64(-1)
		for i := 0; i < calls; i++ {
			var v *variable.Value
			var e error
			switch fn {
			case 0:
				v, e = fs.call("dice", []*variable.Value{vNum(float64(n))})
			case 1:
				v, e = fs.call("random_range", []*variable.Value{vNum(float64(a)), vNum(float64(b))})
			default:
				v, e = fs.call("random", nil)
			}
			if e != nil || vKind(v) != 0 {
				last = -2
				continue
			}
			if fn == 2 {
				last = int64(*v.Number * 4503599627370496) // 2^52: exact and injective on the generator's 53-bit grid up to one bit
			} else if r, ok := vExactInt(*v.Number); ok {
				last = int64(r)
			} else {
				last = -3
			}
		}
		return last
	}
	here := run()
	there := vOtherProcess("run", run)
	vReach("compared")
	vAssert(here == there, "same random results for the same seed and calls in another process")
}
