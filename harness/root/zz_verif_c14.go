package ysgo

import (
	"github.com/remieven/ysgo/internal/tree"
	"github.com/remieven/ysgo/markup"
	"github.com/remieven/ysgo/variable"
)

// C14 (runner side): the same line shown after a different prefix of lines has the same markup result.
func VHRunnerMarkupPure() {
	n1 := vParam("N1", 2)
	n2 := vParam("N2", 3)
	l1 := vString("line1", n1)
	l2 := vString("line2", n2)
	for i := 0; i < n1; i++ {
		vAssume(l1[i] < 0x80)
	}
	for i := 0; i < n2; i++ {
		vAssume(l2[i] < 0x80)
	}
	mk := func(t string) *tree.Statement {
		return &tree.Statement{LineStatement: &tree.LineStatement{Text: &tree.LineFormattedText{Elements: []*tree.LineFormattedTextElement{{Text: t}}}}}
	}
	dr := vRunnerAt(variable.NewInMemoryStorer(), &tree.Dialogue{}, "n0", mk(l1), mk(l2))
	dr.Next(0) // first line: may succeed or fail to parse, either way it is history
	el, err := dr.Next(0)
	fresh := markup.LineParser{}
	want, werr := fresh.ParseMarkup(l2)
	if l2 == "" {
		return // an empty text element is skipped by the listener convention; not a line the parser sees
	}
	vAssert((err != nil) == (werr != nil), "the runner's parser fails exactly when a fresh one does")
	if err != nil || werr != nil {
		return
	}
	vReach("parsed")
	vAssert(el != nil && el.Line != nil && el.Line.Text == want.Text && len(el.Line.Attributes) == len(want.Attributes), "same text and attribute count")
	for i := range want.Attributes {
		a, b := el.Line.Attributes[i], want.Attributes[i]
		vAssert(a.Name == b.Name && a.Position == b.Position && a.Length == b.Length && a.SourcePosition == b.SourcePosition, "same attribute whatever was shown before")
		vAssert(len(a.Properties) == len(b.Properties), "same properties whatever was shown before (count)")
		for k, pv := range b.Properties {
			qv, ok := a.Properties[k]
			vAssert(ok && qv.ValueType == pv.ValueType && qv.StringValue == pv.StringValue && qv.IntegerValue == pv.IntegerValue &&
				qv.BoolValue == pv.BoolValue && vSameFloat(qv.FloatValue, pv.FloatValue), "same properties whatever was shown before")
		}
		vReach("with-attributes")
	}
}
