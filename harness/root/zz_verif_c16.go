package ysgo

import (
	"errors"

	"github.com/remieven/ysgo/variable"
)

// C16: the reflection bridge on a finite list of Go signatures (enumerated by the SIG parameter),
// with a symbolic argument list (0..4 arguments of symbolic kind and payload) for each accepted one.
// reflect's semantics are supplied by the engine from go/types (DESIGN 3.6(5)).

type vMyInt int
type vMyFloat float64
type vMyString string
type vMyBool bool
type vMyErr struct{}

func (vMyErr) Error() string { return "my error" }

type vSig struct {
	name   string
	f      any
	accept bool
	// kinds of the fixed parameters (0 number, 1 boolean, 2 string); variadic: kind of the tail, else -1
	params   []int
	variadic int
	// check is called after a successful call with the script arguments and the result
	check func(args []*variable.Value, res *variable.Value)
}

var vGot struct {
	ints    []int
	floats  []float64
	bools   []bool
	strs    []string
	calls   int
	retErr  bool
}

func vNumArg(a *variable.Value) float64 { return *a.Number }

func vSigs() []vSig {
	fail := func() error {
		if vGot.retErr {
			return errors.New("host failure")
		}
		return nil
	}
	return []vSig{
		// ---- accepted ----
		{name: "func()", f: func() { vGot.calls++ }, accept: true, variadic: -1,
			check: func(args []*variable.Value, res *variable.Value) { vAssert(res == nil, "no result") }},
		{name: "func() int", f: func() int { vGot.calls++; return 7 }, accept: true, variadic: -1,
			check: func(args []*variable.Value, res *variable.Value) { vAssert(vKind(res) == 0 && *res.Number == 7, "int result") }},
		{name: "func() float32", f: func() float32 { vGot.calls++; return 0.5 }, accept: true, variadic: -1,
			check: func(args []*variable.Value, res *variable.Value) { vAssert(vKind(res) == 0 && *res.Number == 0.5, "float32 result") }},
		{name: "func() bool", f: func() bool { vGot.calls++; return true }, accept: true, variadic: -1,
			check: func(args []*variable.Value, res *variable.Value) { vAssert(vKind(res) == 1 && *res.Boolean, "bool result") }},
		{name: "func() string", f: func() string { vGot.calls++; return "s" }, accept: true, variadic: -1,
			check: func(args []*variable.Value, res *variable.Value) { vAssert(vKind(res) == 2 && *res.String == "s", "string result") }},
		{name: "func() error", f: func() error { vGot.calls++; return fail() }, accept: true, variadic: -1,
			check: func(args []*variable.Value, res *variable.Value) { vAssert(res == nil && !vGot.retErr, "nil error means success without value") }},
		{name: "func() (int, error)", f: func() (int, error) { vGot.calls++; return 3, fail() }, accept: true, variadic: -1,
			check: func(args []*variable.Value, res *variable.Value) { vAssert(!vGot.retErr && vKind(res) == 0 && *res.Number == 3, "value with nil error") }},
		{name: "func() vMyErr-typed error result", f: func() vMyErr { vGot.calls++; return vMyErr{} }, accept: true, variadic: -1,
			check: func(args []*variable.Value, res *variable.Value) { vAssert(false, "a function returning a non-nil error value fails") }},
		{name: "func(int) int", f: func(a int) int { vGot.calls++; vGot.ints = append(vGot.ints, a); return a }, accept: true, params: []int{0}, variadic: -1,
			check: func(args []*variable.Value, res *variable.Value) {
				vAssert(len(vGot.ints) == 1 && vGot.ints[0] == int(vNumArg(args[0])), "the int parameter is the converted number")
				vAssert(vKind(res) == 0 && *res.Number == float64(int(vNumArg(args[0]))), "int result converted back")
			}},
		{name: "func(int8) int8", f: func(a int8) int8 { vGot.calls++; return a }, accept: true, params: []int{0}, variadic: -1,
			check: func(args []*variable.Value, res *variable.Value) { vAssert(vKind(res) == 0 && *res.Number == float64(int8(vNumArg(args[0]))), "int8 round trip") }},
		{name: "func(int16) int16", f: func(a int16) int16 { vGot.calls++; return a }, accept: true, params: []int{0}, variadic: -1,
			check: func(args []*variable.Value, res *variable.Value) { vAssert(vKind(res) == 0 && *res.Number == float64(int16(vNumArg(args[0]))), "int16 round trip") }},
		{name: "func(int32) int32", f: func(a int32) int32 { vGot.calls++; return a }, accept: true, params: []int{0}, variadic: -1,
			check: func(args []*variable.Value, res *variable.Value) { vAssert(vKind(res) == 0 && *res.Number == float64(int32(vNumArg(args[0]))), "int32 round trip") }},
		{name: "func(int64) int64", f: func(a int64) int64 { vGot.calls++; return a }, accept: true, params: []int{0}, variadic: -1,
			check: func(args []*variable.Value, res *variable.Value) { vAssert(vKind(res) == 0 && *res.Number == float64(int64(vNumArg(args[0]))), "int64 round trip") }},
		{name: "func(float32) float32", f: func(a float32) float32 { vGot.calls++; return a }, accept: true, params: []int{0}, variadic: -1,
			check: func(args []*variable.Value, res *variable.Value) { vAssert(vKind(res) == 0 && vSameFloat(*res.Number, float64(float32(vNumArg(args[0])))), "float32 round trip") }},
		{name: "func(float64) float64", f: func(a float64) float64 { vGot.calls++; vGot.floats = append(vGot.floats, a); return a }, accept: true, params: []int{0}, variadic: -1,
			check: func(args []*variable.Value, res *variable.Value) {
				vAssert(len(vGot.floats) == 1 && vSameFloat(vGot.floats[0], vNumArg(args[0])), "the float64 parameter is the number")
				vAssert(vKind(res) == 0 && vSameFloat(*res.Number, vNumArg(args[0])), "float64 round trip")
			}},
		{name: "func(bool) bool", f: func(a bool) bool { vGot.calls++; return !a }, accept: true, params: []int{1}, variadic: -1,
			check: func(args []*variable.Value, res *variable.Value) { vAssert(vKind(res) == 1 && *res.Boolean == !*args[0].Boolean, "bool round trip") }},
		{name: "func(string) string", f: func(a string) string { vGot.calls++; return a + "!" }, accept: true, params: []int{2}, variadic: -1,
			check: func(args []*variable.Value, res *variable.Value) { vAssert(vKind(res) == 2 && *res.String == *args[0].String+"!", "string round trip") }},
		{name: "func(int, string, bool) string", f: func(a int, b string, c bool) string {
			vGot.calls++
			vGot.ints = append(vGot.ints, a)
			vGot.strs = append(vGot.strs, b)
			vGot.bools = append(vGot.bools, c)
			return b
		}, accept: true, params: []int{0, 2, 1}, variadic: -1,
			check: func(args []*variable.Value, res *variable.Value) {
				vAssert(vGot.ints[0] == int(vNumArg(args[0])) && vGot.strs[0] == *args[1].String && vGot.bools[0] == *args[2].Boolean, "three parameters in order")
			}},
		{name: "func(...int) int", f: func(a ...int) int { vGot.calls++; vGot.ints = append(vGot.ints, a...); return len(a) }, accept: true, variadic: 0,
			check: func(args []*variable.Value, res *variable.Value) {
				vAssert(len(vGot.ints) == len(args) && vKind(res) == 0 && *res.Number == float64(len(args)), "the variadic tail receives every argument")
				for i := range args {
					vAssert(vGot.ints[i] == int(vNumArg(args[i])), "variadic arguments in order")
				}
			}},
		{name: "func(string, ...float64) float64", f: func(s string, a ...float64) float64 { vGot.calls++; vGot.strs = append(vGot.strs, s); vGot.floats = append(vGot.floats, a...); return float64(len(a)) }, accept: true, params: []int{2}, variadic: 0,
			check: func(args []*variable.Value, res *variable.Value) {
				vAssert(vGot.strs[0] == *args[0].String && len(vGot.floats) == len(args)-1, "fixed parameter then the variadic tail")
			}},
		{name: "func(vMyInt) vMyInt (named int)", f: func(a vMyInt) vMyInt { vGot.calls++; return a + 1 }, accept: true, params: []int{0}, variadic: -1,
			check: func(args []*variable.Value, res *variable.Value) { vAssert(vKind(res) == 0 && *res.Number == float64(int(vNumArg(args[0]))+1), "named int round trip") }},
		{name: "func(vMyFloat) vMyFloat (named float)", f: func(a vMyFloat) vMyFloat { vGot.calls++; return a }, accept: true, params: []int{0}, variadic: -1,
			check: func(args []*variable.Value, res *variable.Value) { vAssert(vKind(res) == 0 && vSameFloat(*res.Number, vNumArg(args[0])), "named float round trip") }},
		{name: "func(vMyString) vMyString (named string)", f: func(a vMyString) vMyString { vGot.calls++; return a }, accept: true, params: []int{2}, variadic: -1,
			check: func(args []*variable.Value, res *variable.Value) { vAssert(vKind(res) == 2 && *res.String == *args[0].String, "named string round trip") }},
		{name: "func(vMyBool) vMyBool (named bool)", f: func(a vMyBool) vMyBool { vGot.calls++; return a }, accept: true, params: []int{1}, variadic: -1,
			check: func(args []*variable.Value, res *variable.Value) { vAssert(vKind(res) == 1 && *res.Boolean == *args[0].Boolean, "named bool round trip") }},
		{name: "func(...vMyInt) int (named variadic)", f: func(a ...vMyInt) int { vGot.calls++; return len(a) }, accept: true, variadic: 0,
			check: func(args []*variable.Value, res *variable.Value) { vAssert(vKind(res) == 0 && *res.Number == float64(len(args)), "named variadic tail") }},
		// ---- refused at registration ----
		{name: "nil", f: nil, accept: false},
		{name: "an int", f: 42, accept: false},
		{name: "a string", f: "f", accept: false},
		{name: "func(struct{})", f: func(struct{}) {}, accept: false},
		{name: "func([]int)", f: func([]int) {}, accept: false},
		{name: "func(uint)", f: func(uint) {}, accept: false},
		{name: "func(...struct{})", f: func(...struct{}) {}, accept: false},
		{name: "func() struct{}", f: func() struct{} { return struct{}{} }, accept: false},
		{name: "func() (int, int)", f: func() (int, int) { return 0, 0 }, accept: false},
		{name: "func() (error, int)", f: func() (error, int) { return nil, 0 }, accept: false},
		{name: "func() (int, error, int)", f: func() (int, error, int) { return 0, nil, 0 }, accept: false},
		{name: "func() chan error", f: func() chan error { return nil }, accept: false},
		{name: "func() []int", f: func() []int { return nil }, accept: false},
	}
}

// VHBridgeFunction: SIG-th signature.
func VHBridgeFunction() {
	sigs := vSigs()
	sig := sigs[vParam("SIG", 0)]
	vGot.ints, vGot.floats, vGot.bools, vGot.strs, vGot.calls = nil, nil, nil, nil, 0
	vGot.retErr = vBool("host.returns.error")
	fs := &functionStorer{functionsByID: map[string]YarnSpinnerFunction{}}
	// a history of registrations: every other bridgeable signature of the list is registered first (a host
	// registers many functions, and the built-in table does so for every runner), so that state shared
	// between registrations (caches keyed too coarsely, ...) shows
	if vParam("HISTORY", 1) != 0 {
		for i, other := range sigs {
			if other.accept && i != vParam("SIG", 0) {
				fs.convertAndAddFunction("other"+vItoa(i), other.f)
			}
		}
	}
	var regErr error
	panicked := vTry(func() { regErr = fs.convertAndAddFunction("f", sig.f) })
	vAssert(!panicked, "registration never panics: "+sig.name)
	vAssert((regErr == nil) == sig.accept, "registration accepts exactly the bridgeable signatures: "+sig.name)
	if regErr != nil {
		vReach("refused")
		return
	}
	vReach("accepted")
	// first call: 0..4 arguments of any kind; then the same registered function is called again, with
	// well-typed arguments (whatever the first call was: refused, failed or successful, it leaves nothing behind)
	vBridgeCallOnce(fs, sig, "arg", vChoose("nargs", 5), false)
	vGot.ints, vGot.floats, vGot.bools, vGot.strs, vGot.calls = nil, nil, nil, nil, 0
	vGot.retErr = vBool("again.host.returns.error")
	n2 := len(sig.params)
	if sig.variadic >= 0 {
		n2 += vChoose("again.tail", 2)
	}
	vBridgeCallOnce(fs, sig, "again", n2, true)
	vReach("called-again")
}

// vBridgeCallOnce: one script-side call of the registered function "f" with n arguments (wellTyped: of the
// kinds the signature wants, else of any kind), checked against the signature.
func vBridgeCallOnce(fs *functionStorer, sig vSig, tag string, n int, wellTyped bool) {
	var args []*variable.Value
	if wellTyped {
		for i := 0; i < n; i++ {
			k := sig.variadic
			if i < len(sig.params) {
				k = sig.params[i]
			}
			args = append(args, vArbValue(tag+vItoa(i), k, 1))
		}
	} else {
		args = vArbArgs(tag, n)
	}
	var res *variable.Value
	var err error
	panicked := vTry(func() { res, err = fs.call("f", args) })
	vAssert(!panicked, "a script-side call never panics: "+sig.name)
	// expected outcome
	arityOK := n == len(sig.params)
	if sig.variadic >= 0 {
		arityOK = n >= len(sig.params)
	}
	typesOK := arityOK
	if arityOK {
		for i := 0; i < n; i++ {
			want := sig.variadic
			if i < len(sig.params) {
				want = sig.params[i]
			}
			if vKind(args[i]) != want {
				typesOK = false
			}
		}
	}
	hostErr := vGot.retErr && (sig.name == "func() error" || sig.name == "func() (int, error)") || sig.name == "func() vMyErr-typed error result"
	if !typesOK {
		vReach("bad-arguments")
		vAssert(err != nil, "a wrong argument count or type is an error: "+sig.name)
		vAssert(vGot.calls == 0, "the function is not invoked on bad arguments")
		return
	}
	vAssert(vGot.calls == 1, "the function is invoked exactly once: "+sig.name)
	vAssert((err != nil) == hostErr, "the host's error, and only it, is passed on: "+sig.name)
	if err == nil {
		vReach("called")
		sig.check(args, res)
	}
}

// VHBridgeCommand: the command bridge.
func VHBridgeCommand() {
	type cmdSig struct {
		name   string
		f      any
		accept bool
		params []int
	}
	calls := 0
	var gotInt int
	retErr := vBool("host.returns.error")
	ch := make(chan error, 1)
	sigs := []cmdSig{
		{"func()", func() { calls++ }, true, nil},
		{"func() error", func() error {
			calls++
			if retErr {
				return errors.New("host failure")
			}
			return nil
		}, true, nil},
		{"func(int)", func(a int) { calls++; gotInt = a }, true, []int{0}},
		{"func() chan error", func() chan error { calls++; return ch }, true, nil},
		{"func() <-chan error", func() <-chan error { calls++; return ch }, true, nil},
		{"func() nil chan", func() chan error { calls++; return nil }, true, nil},
		{"nil", nil, false, nil},
		{"an int", 1, false, nil},
		{"func() int", func() int { return 0 }, false, nil},
		{"func() (error, error)", func() (error, error) { return nil, nil }, false, nil},
		{"func([]int)", func([]int) {}, false, nil},
		{"func() chan int", func() chan int { return nil }, false, nil},
	}
	sig := sigs[vParam("SIG", 0)]
	cs := newCommandStorer()
	var regErr error
	panicked := vTry(func() { regErr = cs.convertAndAddCommand("c", sig.f) })
	vAssert(!panicked, "command registration never panics: "+sig.name)
	vAssert((regErr == nil) == sig.accept, "command registration accepts exactly the bridgeable signatures: "+sig.name)
	if regErr != nil {
		vReach("refused")
		return
	}
	vReach("accepted")
	n := vChoose("nargs", 3)
	args := vArbArgs("arg", n)
	var out <-chan error
	panicked = vTry(func() { out = cs.call("c", args) })
	vAssert(!panicked && out != nil, "a script-side command call never panics and returns a channel: "+sig.name)
	typesOK := n == len(sig.params)
	if typesOK {
		for i := 0; i < n; i++ {
			if vKind(args[i]) != sig.params[i] {
				typesOK = false
			}
		}
	}
	vRunGoroutines()
	if !typesOK {
		vReach("bad-arguments")
		var e error
		select {
		case e = <-out:
		default:
			vAssert(false, "bad arguments complete immediately")
		}
		vAssert(e != nil && calls == 0, "a wrong argument count or type is an error and the handler does not run")
		return
	}
	vAssert(calls == 1, "the handler runs exactly once: "+sig.name)
	switch sig.name {
	case "func() chan error", "func() <-chan error":
		select {
		case <-out:
			vAssert(false, "the handler's own channel is handed through: it is still pending")
		default:
		}
		ch <- nil
		vAssert(<-out == nil, "completion is what the handler reports")
	case "func() nil chan":
		vAssert(<-out != nil, "a nil channel is reported as an error")
	default:
		e := <-out
		vAssert((e != nil) == (retErr && sig.name == "func() error"), "the handler's error, and only it, is passed on")
		if sig.name == "func(int)" {
			vAssert(gotInt == int(*args[0].Number), "the int parameter is the converted number")
		}
		// a run whose outcome nobody collects (the runner was restored meanwhile), then another run of the
		// same command: it reports its own outcome
		retErr = vBool("abandoned.returns.error")
		cs.call("c", args)
		vRunGoroutines()
		retErr = vBool("later.returns.error")
		out3 := cs.call("c", args)
		vRunGoroutines()
		select {
		case e3 := <-out3:
			vAssert((e3 != nil) == (retErr && sig.name == "func() error"), "a later run of the same command reports its own outcome")
		default:
			vAssert(false, "a later run of the same command completes")
		}
		vAssert(calls == 3, "every run invokes the handler")
		vReach("run-after-abandoned-run")
	}
	vReach("called")
}
