package ysgo

import (
	"github.com/remieven/ysgo/internal/container"
	"github.com/remieven/ysgo/internal/tree"
	"github.com/remieven/ysgo/variable"
)

// C07: snapshots are self-contained values; restore resumes from node entry.

type vSnapCopy struct {
	vars   map[string]variable.Value
	node   string
	visits map[string]int
}

func vDeepCopySnapshot(s *Snapshot) vSnapCopy {
	c := vSnapCopy{vars: map[string]variable.Value{}, node: s.CurrentNode, visits: map[string]int{}}
	for k, v := range s.Variables {
		var w variable.Value
		if v.Number != nil {
			x := *v.Number
			w.Number = &x
		}
		if v.Boolean != nil {
			x := *v.Boolean
			w.Boolean = &x
		}
		if v.String != nil {
			x := *v.String
			w.String = &x
		}
		c.vars[k] = w
	}
	for k, v := range s.VisitedNodes {
		c.visits[k] = v
	}
	return c
}

func vVisitsEq(a, b map[string]int) bool {
	if len(a) != len(b) {
		return false
	}
	for k, v := range a {
		w, ok := b[k]
		if !ok || v != w {
			return false
		}
	}
	return true
}

func vSnapEq(s *Snapshot, c vSnapCopy) bool {
	return s.CurrentNode == c.node && vStoreEq(s.Variables, c.vars) && vVisitsEq(s.VisitedNodes, c.visits)
}

// VHSnapshotAtJump: a snapshot taken after a jump is the state as of that node entry; a snapshot
// taken before is not changed by the jump (self-contained).
func VHSnapshotAtJump() {
	w := vNewWorld(1, false)
	dr := w.dr
	s0 := dr.Snapshot()
	c0 := vDeepCopySnapshot(s0)
	_, _, spec := w.vStep()
	vAssert(vSnapEq(s0, c0), "a snapshot is not changed by what the runner does afterwards")
	if len(spec.jumps) == 0 || spec.fail {
		return
	}
	vReach("jumped")
	s1 := dr.Snapshot()
	vAssert(s1.CurrentNode == spec.node, "the snapshot names the node just entered")
	vAssert(vStoreEq(s1.Variables, w.store.GetValues()), "the snapshot holds the variables as of the node entry")
	vAssert(vVisitsEq(s1.VisitedNodes, dr.visitedNodes), "the snapshot holds the visit counts as of the node entry")
	// taking it twice gives equal values
	vAssert(vSnapEq(dr.Snapshot(), vDeepCopySnapshot(s1)), "two snapshots of the same state are equal")
}

// vArbSnapshot: an arbitrary snapshot value: node a symbolic 2-byte name, two variables, visit counts.
func vArbSnapshot(w *vWorld) *Snapshot {
	s := &Snapshot{CurrentNode: vString("snap.node", 2), Variables: map[string]variable.Value{}, VisitedNodes: map[string]int{}}
	s.Variables["b0"] = *variable.NewBoolean(vBool("snap.b0"))
	if vChoose("snap.hasx", 2) == 1 {
		s.Variables["x"] = *variable.NewNumber(vFloat("snap.x"))
	}
	s.Variables["only"] = *variable.NewString(vString("snap.only", 1))
	for i := 0; i < 3; i++ {
		if vChoose("snap.visited"+vItoa(i), 2) == 1 {
			c := vInt("snap.visited" + vItoa(i) + ".count")
			vAssume(vAnd(c >= 1, c < 1<<40))
			s.VisitedNodes[w.titles[i]] = c
		}
	}
	return s
}

// vSimpleRunner: a second runner of the same script in its initial state.
func vSimpleRunner(w *vWorld) *DialogueRunner {
	return vRunnerAt(variable.NewInMemoryStorer(), w.dr.dialogue, "n0", w.nodes[0].Statements...)
}

// VHRestore: RestoreAt(s) into a runner in any state of the state space (incl. waiting for a choice,
// command pending or completed, mid-node, exhausted).
func VHRestore() {
	w := vNewWorld(0, false)
	dr := w.dr
	// node n1 starts with a jump to n2, so that a step after restoring at n1 changes visit counts
	w.nodes[1].Statements[0] = &tree.Statement{JumpStatement: &tree.JumpStatement{Expression: vValExpr(variable.NewString("n2"))}}
	s := vArbSnapshot(w)
	c := vDeepCopySnapshot(s)
	// the receiving runner's variables: the world's four, or fewer / other names than the snapshot holds
	switch vChoose("receiver.store", 3) {
	case 1:
		w.store.Clear()
		w.store.SetNumberValue("stale", vFloat("receiver.stale"))
	case 2:
		w.store.Clear()
		w.store.SetStringValue("stale1", "x")
		w.store.SetBooleanValue("stale2", vBool("receiver.stale2"))
		w.store.SetNumberValue("b0", 1) // same name as in the snapshot, other type
	}

	K0 := vFlatten(dr)
	last0 := dr.lastStatement
	store0 := w.store.GetValues()
	visits0 := vCopyVisits(dr.visitedNodes)
	node0 := dr.currentNode
	chan0 := dr.commandErrChan

	var err error
	panicked := vTry(func() { err = dr.RestoreAt(s) })
	vAssert(!panicked, "RestoreAt never panics")
	target := w.findNode(s.CurrentNode)
	vAssert((err != nil) == (target == nil), "restoring fails exactly when the snapshot names an unknown node")
	if err != nil {
		vReach("unknown-node")
		vAssert(vSameStatements(vFlatten(dr), K0) && dr.lastStatement == last0 && dr.currentNode == node0 && dr.commandErrChan == chan0, "a failed restore changes nothing (flow)")
		vAssert(vStoreEq(store0, w.store.GetValues()) && vVisitsEq(visits0, dr.visitedNodes), "a failed restore changes nothing (data)")
		vAssert(vSnapEq(s, c), "a failed restore does not change the snapshot")
		return
	}
	vReach("restored")
	// canonical node-entry state
	vAssert(vSameStatements(vFlatten(dr), target.Statements), "after a restore the continuation is the node from its first statement")
	vAssert(!dr.isWaitingForChoice(), "after a restore no choice is pending")
	vAssert(dr.commandErrChan == nil, "after a restore no command is pending")
	vAssert(dr.currentNode == c.node, "after a restore the current node is the snapshot's")
	vAssert(vStoreEq(w.store.GetValues(), c.vars), "after a restore the variables are the snapshot's")
	vAssert(vVisitsEq(dr.visitedNodes, c.visits), "after a restore the visit counts are the snapshot's")
	// (taking a snapshot is itself an operation on the runner: do it on some paths only, so that what
	// follows is also explored on a runner nobody took a snapshot of)
	snapAfter := vChoose("snapshot.after.restore", 2) == 1
	if snapAfter {
		vAssert(vSnapEq(dr.Snapshot(), c), "a snapshot taken right after a restore equals the restored one")
	}

	// a second runner restored from the same snapshot
	dr2 := vSimpleRunner(w)
	vAssert(dr2.RestoreAt(s) == nil, "a fresh runner accepts the snapshot")
	// what scripts see of the visit counts from now on (visited / visited_count) is the snapshot's, in both
	// (on the paths that also took a snapshot: asking is an operation on the runner, too)
	if snapAfter {
		for _, name := range []string{"n0", "n1", "n2", "zz"} {
			want := c.visits[name]
			// (a count for a node that is never tracked: no history produces it, no reading imposed; decided inside
			// the obligation rather than by a branch, so that it does not multiply the paths)
			skip := false
			if name != "zz" {
				skip = vAnd(want > 0, !w.tracked(name))
			}
			for _, r := range []*DialogueRunner{dr, dr2} {
				cnt, vis := vScriptVisits(r, name)
				ci, exact := vExactInt(cnt)
				vAssert(vOr(skip, vAnd(exact, ci == want)), "after a restore visited_count reports the snapshot's count")
				vAssert(vOr(skip, vis == (want > 0)), "after a restore visited reports whether the snapshot's count is positive")
			}
		}
		vReach("visit-functions-after-restore")
	}
	// step the first runner (arbitrary choice: it must be ignored)
	var el *DialogueElement
	panicked = vTry(func() { el, err = dr.Next(vInt("choice.after.restore")) })
	vAssert(!panicked && err == nil, "the step after a restore succeeds")
	first := target.Statements[0]
	if first.LineStatement != nil {
		vAssert(el != nil && el.Line != nil && el.Line.Text == w.lines[first] && el.Node == c.node, "the restored runner continues with the first statement of the node")
	} else {
		vReach("jump-after-restore")
		vAssert(el != nil && el.Node == "n2" && el.Line != nil && el.Line.Text == w.lines[w.nodes[2].Statements[0]], "the restored runner runs the node's jump")
	}
	vAssert(vSnapEq(s, c), "stepping a restored runner does not change the snapshot")
	vAssert(vVisitsEq(dr2.visitedNodes, c.visits) && dr2.currentNode == c.node, "runners restored from one snapshot do not influence one another")
	vAssert(vStoreEq(dr2.variableStorer.GetValues(), c.vars), "the other runner's variables are untouched")
}

// VHRestoreHostBuilt (C06, C07): snapshots a host builds itself (the only way to start a dialogue at a chosen
// node) rather than obtains from Snapshot(): maps left nil, empty, or filled. Restoring one never panics, gives
// the state it describes, and the runner then runs (jumps included) without panicking.
func VHRestoreHostBuilt() {
	w := vNewWorld(0, false)
	dr := w.dr
	w.nodes[1].Statements[0] = &tree.Statement{JumpStatement: &tree.JumpStatement{Expression: vValExpr(variable.NewString("n2"))}}
	s := &Snapshot{CurrentNode: []string{"n0", "n1", "zz"}[vChoose("snap.node", 3)]}
	maps := vChoose("snap.maps", 4)
	if maps == 1 || maps == 3 {
		s.Variables = map[string]variable.Value{}
		if maps == 3 {
			s.Variables["b0"] = *variable.NewBoolean(vBool("snap.b0"))
		}
	}
	if maps == 2 || maps == 3 {
		s.VisitedNodes = map[string]int{}
		if maps == 3 {
			s.VisitedNodes["n2"] = 1 + vChoose("snap.n2", 2)
		}
	}
	c := vDeepCopySnapshot(s)
	var err error
	panicked := vTry(func() { err = dr.RestoreAt(s) })
	vAssert(!panicked, "restoring a host-built snapshot never panics")
	vAssert((err != nil) == (s.CurrentNode == "zz"), "restoring fails exactly when the snapshot names an unknown node")
	if err != nil {
		return
	}
	vAssert(vStoreEq(w.store.GetValues(), c.vars), "after a restore the variables are the snapshot's (none for a nil map)")
	var s2 *Snapshot
	panicked = vTry(func() { s2 = dr.Snapshot() })
	vAssert(!panicked && s2 != nil && s2.CurrentNode == c.node && vStoreEq(s2.Variables, c.vars) && vVisitsEq(s2.VisitedNodes, c.visits), "a snapshot taken right after equals the restored one (nil maps reading as empty)")
	for i := 0; i < 3; i++ {
		var el *DialogueElement
		panicked = vTry(func() { el, err = dr.Next(vInt("choice" + vItoa(i))) })
		vAssert(!panicked, "the restored runner runs without panicking")
		if i == 0 {
			vAssert(err == nil && el != nil, "the step after a restore succeeds")
			if c.node == "n1" {
				vAssert(el.Node == "n2", "the restored runner runs the node's jump")
				cnt, _ := vScriptVisits(dr, "n1")
				ci, _ := vExactInt(cnt)
				want := 0
				if w.tracked("n1") {
					want = 1
				}
				vAssert(ci == want, "and counts it")
				vReach("jump-after-host-built-restore")
			}
		}
	}
	vReach("host-built")
}

// vSameElement: two results of Next are the same element (or the same kind of non-element).
func vSameElement(a *DialogueElement, ea error, b *DialogueElement, eb error) bool {
	if (ea != nil) != (eb != nil) || (a == nil) != (b == nil) {
		return false
	}
	if ea != nil && (ea == ErrWaitingForCommandCompletion) != (eb == ErrWaitingForCommandCompletion) {
		return false
	}
	if a == nil {
		return true
	}
	if a.Node != b.Node || (a.Line == nil) != (b.Line == nil) || len(a.Options) != len(b.Options) {
		return false
	}
	if a.Line != nil && a.Line.Text != b.Line.Text {
		return false
	}
	for i := range a.Options {
		if a.Options[i].Disabled != b.Options[i].Disabled || (a.Options[i].Line == nil) != (b.Options[i].Line == nil) {
			return false
		}
		if a.Options[i].Line != nil && a.Options[i].Line.Text != b.Options[i].Line.Text {
			return false
		}
	}
	return true
}

// VHRestoreReplay (C07, the property's main clause taken literally): the original runs a looping script (as in
// VHRevisit) until a call that entered a node; a snapshot is taken; the original goes on for STEPS calls. A fresh
// runner of the same script (own storer, same host functions) is restored from the snapshot: its first call
// returns what the original's entering call returned, and then, for the same choices, the same elements, one
// after the other. (Host functions are deterministic here and the host writes nothing in between.)
func VHRestoreReplay() {
	w := vNewWorld(0, false) // params: DEPTH=0 LAST=0 (a runner that has not started)
	dr := w.dr
	dr.AddFunction("probe", func(args []*variable.Value) (*variable.Value, error) { // deterministic in this harness
		w.probes = append(w.probes, vHandlerCall{"probe", args})
		return variable.NewNumber(1), nil
	})
	S := w.vStatement("head", vParam("BUDGET", 1), false)
	back := func() *tree.Statement {
		return &tree.Statement{JumpStatement: &tree.JumpStatement{Expression: vValExpr(variable.NewString("n0"))}}
	}
	w.nodes[0].Statements = []*tree.Statement{S, w.newLineStmt("L"), back()}
	for i := 1; i <= 2; i++ {
		w.nodes[i].Statements = append(w.nodes[i].Statements, back())
	}
	vAssume(dr.currentNode == "n0")
	stack := container.Stack[*statementQueue]{}
	stack.Push(&statementQueue{statements: w.nodes[0].Statements})
	dr.statementsToRun = stack

	choose := func(t string) int {
		if dr.isWaitingForChoice() {
			return vChoose(t+".choice", len(dr.lastStatement.ShortcutOptionStatement.Options))
		}
		return vInt(t + ".choice")
	}
	settle := func(err error) { // a command that is pending reports completion before the next call
		if err == ErrWaitingForCommandCompletion && w.pending != nil {
			w.pending <- nil
			w.pending = nil
		}
	}
	// the original, until a call that entered a node (a call that loops for ever does not return: outside the bound)
	var e0 *DialogueElement
	var err0 error
	entered := false
	for i := 0; i < 4 && !entered; i++ {
		visits := 0
		for _, c := range dr.visitedNodes {
			visits += c
		}
		node := dr.currentNode
		pre := vEnvOf(w.store)
		pre.probeOK = func(int) bool { return true }
		pre.visits = vCopyVisits(dr.visitedNodes)
		var waiting *tree.ShortcutOptionStatement
		if dr.isWaitingForChoice() {
			waiting = dr.lastStatement.ShortcutOptionStatement
		}
		c := choose("pre" + vItoa(i))
		w.vSpecNext(pre, vFlatten(dr), waiting, node, c) // leaves the path if the call would not return
		e0, err0 = dr.Next(c)
		settle(err0)
		after := 0
		for _, c := range dr.visitedNodes {
			after += c
		}
		entered = after != visits || dr.currentNode != node
		if e0 == nil && err0 == nil {
			return // the dialogue ended before any node was entered
		}
	}
	if !entered {
		return
	}
	vReach("entered")
	snap := dr.Snapshot()
	// a fresh runner of the same script, restored
	dr2 := vRunnerAt(variable.NewInMemoryStorer(), dr.dialogue, "n0", w.nodes[0].Statements...)
	w.registerHost(dr2)
	dr2.AddFunction("probe", func(args []*variable.Value) (*variable.Value, error) { return variable.NewNumber(1), nil })
	if dr2.RestoreAt(snap) != nil {
		vAssert(false, "a fresh runner accepts a snapshot of the same script")
		return
	}
	f0, ferr0 := dr2.Next(vInt("restored.first.choice"))
	settle(ferr0)
	vAssert(vSameElement(e0, err0, f0, ferr0), "the restored runner's first call returns what the original's entering call returned")
	if e0 == nil {
		vReach("entering-call-failed")
	}
	steps := vParam("STEPS", 3)
	for i := 0; i < steps; i++ {
		t := "step" + vItoa(i)
		vAssert(dr.isWaitingForChoice() == dr2.isWaitingForChoice(), "both await a choice, or neither")
		pre := vEnvOf(w.store)
		pre.probeOK = func(int) bool { return true }
		pre.visits = vCopyVisits(dr.visitedNodes)
		var waiting *tree.ShortcutOptionStatement
		if dr.isWaitingForChoice() {
			waiting = dr.lastStatement.ShortcutOptionStatement
		}
		c := choose(t)
		w.vSpecNext(pre, vFlatten(dr), waiting, dr.currentNode, c)
		a, ea := dr.Next(c)
		settle(ea)
		b, eb := dr2.Next(c)
		settle(eb)
		vAssert(vSameElement(a, ea, b, eb), "for the same choices the restored runner returns the same elements as the original")
		if a == nil && ea == nil {
			vReach("both-ended")
			return
		}
		if a != nil && len(a.Options) > 0 {
			vReach("same-options")
		}
	}
	vReach("replayed")
}
