package ysgo

import (
	"math"

	"github.com/remieven/ysgo/internal/tree"
	"github.com/remieven/ysgo/variable"
)

// C03: set/declare against the assignment table, on the real executeSetStatement /
// executeDeclareStatement and the real InMemoryStorer.

// vArbStoreVar puts variable name into the store with an arbitrary type/value, or leaves it absent.
// Returns the kind (-1 absent).
func vArbStoreVar(st variable.Storer, tag, name string) int {
	k := vChoose(tag+".state", 4) - 1
	switch k {
	case 0:
		if vNumbersAsInts {
			st.SetNumberValue(name, float64(vIntRange(tag+".i", -9, 9)))
		} else {
			st.SetNumberValue(name, vFloat(tag+".n"))
		}
	case 1:
		st.SetBooleanValue(name, vBool(tag+".b"))
	case 2:
		st.SetStringValue(name, vString(tag+".s", vChoose(tag+".slen", 3)))
	}
	return k
}

func vValueEq(a, b variable.Value) bool {
	ka, kb := vKind(&a), vKind(&b)
	if ka != kb || ka < 0 {
		return false
	}
	switch ka {
	case 0:
		return vSameFloat(*a.Number, *b.Number)
	case 1:
		return *a.Boolean == *b.Boolean
	}
	return *a.String == *b.String
}

func vStoreEq(a, b map[string]variable.Value) bool {
	if len(a) != len(b) {
		return false
	}
	for k, va := range a {
		vb, ok := b[k]
		if !ok || !vValueEq(va, vb) {
			return false
		}
	}
	return true
}

// vOneTypePerName: a name lives in at most one of the three maps.
func vOneTypePerName(st *variable.InMemoryStorer, names []string) bool {
	all := st.GetValues()
	for _, n := range names {
		v, ok := st.GetValue(n)
		if ok != st.Contains(n) {
			return false
		}
		w, ok2 := all[n]
		if ok != ok2 {
			return false
		}
		if ok && !vValueEq(*v, w) {
			return false
		}
	}
	return true
}

func vNewRunnerWithStore(st variable.Storer) *DialogueRunner {
	return vRunnerAt(st, &tree.Dialogue{}, "n0")
}

// vSetTable: the assignment table of the property statement: what `v op= rv` stores into a store holding
// `before` (vk: kind of v there, -1 absent), or that it is an error.
func vSetTable(before map[string]variable.Value, vk int, op int, rv *variable.Value) (variable.Value, bool) {
	wantErr := false
	var want variable.Value
	rk := vKind(rv)
	switch {
	case rv == nil || rk < 0:
		wantErr = true // reading an unknown variable
	case vk >= 0 && vk != rk:
		wantErr = true // a variable never changes type
	case vk < 0 && op != tree.AssignmentInPlaceOperator:
		wantErr = true // compound assignment to an unknown variable
	case op == tree.AssignmentInPlaceOperator:
		want = *rv
	case rk == 0:
		prev := *before["v"].Number
		x := *rv.Number
		var r float64
		switch op {
		case tree.AdditionInPlaceOperator:
			r = prev + x
		case tree.SubtractionInPlaceOperator:
			r = prev - x
		case tree.MultiplicationInPlaceOperator:
			r = prev * x
		case tree.DivisionInPlaceOperator:
			r = prev / x
		case tree.ModuloInPlaceOperator:
			r = math.Mod(prev, x)
		default:
			wantErr = true
		}
		want = variable.Value{Number: &r}
	case rk == 2 && op == tree.AdditionInPlaceOperator:
		s := *before["v"].String + *rv.String // appends e on the right
		want = variable.Value{String: &s}
	default:
		wantErr = true
	}

	return want, wantErr
}

// VHSetStatement: arbitrary store (v and w absent or of any type), one set/declare of v with an
// arbitrary operator code and a right-hand side that is a value of any type or a read of w.
func VHSetStatement() {
	// numbers: arbitrary doubles, or integer-valued ones in [-9, 9] (for which % is decided exactly, see math.Mod)
	vNumbersAsInts = vChoose("numbers.intvalued", 2) == 1
	st := variable.NewInMemoryStorer()
	names := []string{"v", "w"}
	vk := vArbStoreVar(st, "v", "v")
	wk := vArbStoreVar(st, "w", "w")
	_ = wk
	before := st.GetValues()
	dr := vNewRunnerWithStore(st)

	// right-hand side
	var rhs *tree.Expression
	var rv *variable.Value
	rhsIsRead := vBool("rhs.read")
	if rhsIsRead {
		name := "w"
		rhs = &tree.Expression{VariableID: &name}
		if w, ok := before["w"]; ok {
			rv = &w
		}
	} else {
		rv = vArbValue("rhs", vChoose("rhs.kind", 3), 2)
		rhs = &tree.Expression{Value: rv}
	}
	var rv0 variable.Value
	lit := rv // what the script's syntax tree (or the storer) holds
	if rv != nil {
		rv0 = vCopyValue(rv)
		rv = &rv0 // the table below reads the right-hand side as written, whatever the statement does to it
	}
	isDeclare := vBool("declare")
	op := vInt("op")
	var err error
	if isDeclare {
		op = tree.AssignmentInPlaceOperator
		err = dr.executeDeclareStatement(&tree.DeclareStatement{VariableID: "v", Value: rhs})
	} else {
		err = dr.executeSetStatement(&tree.SetStatement{VariableID: "v", InPlaceOperator: op, Expression: rhs})
	}
	vReach("executed")
	after := st.GetValues()
	if lit != nil && !rhsIsRead {
		vAssert(vValueEq(*lit, rv0), "a statement does not rewrite the literal it assigns (the script is not changed by running it)")
	}

	want, wantErr := vSetTable(before, vk, op, rv)
	rk := vKind(rv)

	vAssert((err != nil) == wantErr, "set/declare fails exactly when the table says so")
	vAssert(vOneTypePerName(st, names), "the storer never reports one name under two types")
	if err != nil {
		vReach("failed")
		vAssert(vStoreEq(before, after), "a failing statement leaves every variable as it was")
		return
	}
	vReach("succeeded")
	got, ok := after["v"]
	vAssert(ok && vValueEq(got, want), "the variable holds the table's value")
	// nothing else changed
	if w, ok := before["w"]; ok {
		w2, ok2 := after["w"]
		vAssert(ok2 && vValueEq(w, w2), "other variables are untouched")
	} else {
		_, ok2 := after["w"]
		vAssert(!ok2, "no variable appears from nowhere")
	}
	vAssert(len(after) == len(before) || (len(after) == len(before)+1 && vk < 0), "store size")

	// the storer is the source of truth: a host write between two steps is what the script reads next
	hk := vChoose("host.kind", 3)
	if hk == rk { // hosts keep types stable too
		hv := vArbValue("host", hk, 2)
		switch hk {
		case 0:
			st.SetNumberValue("v", *hv.Number)
		case 1:
			st.SetBooleanValue("v", *hv.Boolean)
		case 2:
			st.SetStringValue("v", *hv.String)
		}
		name := "v"
		read, rerr := evaluateExpression(&tree.Expression{VariableID: &name}, dr.variableStorer, dr.functionStorer)
		vAssert(rerr == nil && read != nil && vValueEq(*read, *hv), "a host write is what the script reads next")
		vReach("host-write")
	}
	// ... and what the next (compound) assignment starts from: a second statement on the same variable,
	// after the host wrote or not
	before2 := st.GetValues()
	op2 := vInt("op2")
	r2 := vArbValue("rhs2", rk, 1)
	r2c := vCopyValue(r2)
	err2 := dr.executeSetStatement(&tree.SetStatement{VariableID: "v", InPlaceOperator: op2, Expression: &tree.Expression{Value: r2}})
	want2, wantErr2 := vSetTable(before2, rk, op2, &r2c)
	vAssert((err2 != nil) == wantErr2, "a second assignment fails exactly when the table says so")
	after2 := st.GetValues()
	if err2 != nil {
		vAssert(vStoreEq(before2, after2), "a failing second statement leaves every variable as it was")
		return
	}
	got2, ok2 := after2["v"]
	vAssert(ok2 && vValueEq(got2, want2), "a second assignment starts from what the storer holds")
	vReach("second-assignment")
}

// VHStorerOps (C03, C07): the default in-memory storer against a model, over every sequence of OPS operations --
// writes of each type (names of their own per type), Clear, and reads through GetValue, Contains and GetValues --
// with all three read paths checked after every operation (so that something one operation leaves behind, such as a
// memoised map, shows at the next) and the map GetValues returned changed by the caller without effect on the store.
func VHStorerOps() {
	st := variable.NewInMemoryStorer()
	names := []string{"n", "m", "b", "s"}
	present := []bool{false, false, false, false}
	var num [2]float64
	var boo bool
	var str string
	ops := vParam("OPS", 3)
	for i := 0; i < ops; i++ {
		tag := "op" + vItoa(i)
		switch vChoose(tag, 6) {
		case 0:
			k := vChoose(tag+".which", 2)
			x := vFloat(tag + ".x")
			st.SetNumberValue(names[k], x)
			present[k], num[k] = true, x
		case 1:
			v := vBool(tag + ".v")
			st.SetBooleanValue("b", v)
			present[2], boo = true, v
		case 2:
			v := vString(tag+".v", 1)
			st.SetStringValue("s", v)
			present[3], str = true, v
		case 3:
			st.Clear()
			present = []bool{false, false, false, false}
			vReach("cleared")
		case 4:
			// the caller changes the map it was given
			m := st.GetValues()
			m["zz"] = *variable.NewNumber(1)
			delete(m, "n")
		default:
			// no operation
		}
		all := st.GetValues()
		count := 0
		for k, name := range names {
			v, ok := st.GetValue(name)
			vAssert(ok == present[k] && st.Contains(name) == present[k], "a name is stored exactly when it was written since the last Clear")
			mv, inAll := all[name]
			vAssert(inAll == present[k], "GetValues lists exactly the stored names")
			if !present[k] {
				continue
			}
			count++
			if !ok || !inAll {
				continue
			}
			switch k {
			case 0, 1:
				vAssert(vKind(v) == 0 && vSameFloat(*v.Number, num[k]) && mv.Number != nil && vSameFloat(*mv.Number, num[k]) && mv.Boolean == nil && mv.String == nil, "a number reads back as written, through GetValue and GetValues")
			case 2:
				vAssert(vKind(v) == 1 && *v.Boolean == boo && mv.Boolean != nil && *mv.Boolean == boo && mv.Number == nil && mv.String == nil, "a boolean reads back as written")
			default:
				vAssert(vKind(v) == 2 && *v.String == str && mv.String != nil && *mv.String == str && mv.Number == nil && mv.Boolean == nil, "a string reads back as written")
			}
		}
		vAssert(len(all) == count, "GetValues holds nothing else")
	}
	vReach("ops")
}
