package ysgo

import (
	"errors"
	"io"
	"strings"

	"github.com/remieven/ysgo/internal/tree"
)

// C05 (Go-level part) and C01 (readers): NewDialogueRunner over one or two readers, each failing to
// read, syntactically invalid, or holding one or two nodes; any 1..2-byte seed.
//
// Under the engine tree.FromReader is replaced by vStubFromReader (the ANTLR lexer/parser cannot be
// encoded): it honours FromReader's contract -- an error, or a dialogue with at least one node, whose
// nodes are those of the text in order. Natively the real FromReader parses the same text.

var vDialogues = map[string]*tree.Dialogue{}

func vStubFromReader(r io.Reader) (*tree.Dialogue, error) {
	data, err := io.ReadAll(r)
	if err != nil {
		return nil, errors.New("failed to read content")
	}
	d, ok := vDialogues[string(data)]
	if !ok {
		return nil, errors.New("script has syntax errors")
	}
	return d, nil
}

type vFailingReader struct{}

func (vFailingReader) Read(p []byte) (int, error) { return 0, errors.New("read error") }

func vNodeText(title, line string) string {
	return "title: " + title + "\n---\n" + line + "\n===\n"
}

func vSeedOK(seed string) bool {
	for i := 0; i < len(seed); i++ {
		c := seed[i]
		if !(('0' <= c && c <= '9') || ('a' <= c && c <= 'z')) {
			return false
		}
	}
	return true
}

func VHNewRunner() {
	nReaders := 1 + vChoose("readers", 2)
	var readers []io.Reader
	var titles, lines []string
	firstErr := false
	for i := 0; i < nReaders; i++ {
		kind := vChoose("reader"+vItoa(i)+".kind", 4)
		switch kind {
		case 0:
			readers = append(readers, vFailingReader{})
			firstErr = true
		case 1:
			readers = append(readers, strings.NewReader("title: broken"+vItoa(i)+"\n"))
			firstErr = true
		default:
			text := ""
			d := &tree.Dialogue{}
			for j := 0; j < kind-1; j++ {
				title := "r" + vItoa(i) + "n" + vItoa(j)
				line := "L" + vItoa(i) + vItoa(j)
				text += vNodeText(title, line)
				d.Nodes = append(d.Nodes, tree.Node{
					Headers:    map[string]string{"title": title},
					Statements: []*tree.Statement{{LineStatement: &tree.LineStatement{Text: &tree.LineFormattedText{Elements: []*tree.LineFormattedTextElement{{Text: line}}}}}},
				})
				if !firstErr {
					titles = append(titles, title)
					lines = append(lines, line)
				}
			}
			vDialogues[text] = d
			readers = append(readers, strings.NewReader(text))
		}
	}
	seed := vString("seed", 1+vChoose("seedlen", 2))
	var dr *DialogueRunner
	var err error
	panicked := vTry(func() { dr, err = NewDialogueRunner(nil, seed, readers...) })
	vAssert(!panicked, "creating a runner never panics")
	wantErr := firstErr || !vSeedOK(seed)
	vAssert((err != nil) == wantErr, "an error exactly when a reader fails, a script is invalid or the seed is not in [0-9a-z]*")
	if err != nil {
		vReach("error")
		vAssert(dr == nil, "no runner with an error")
		return
	}
	vReach("created")
	vAssert(dr != nil, "a usable runner")
	// the readers behave as one script: node order is concatenation order, start = first node of the first reader
	vAssert(len(dr.dialogue.Nodes) == len(titles), "every node of every reader")
	for i := range titles {
		vAssert(dr.dialogue.Nodes[i].Title() == titles[i], "nodes in reader order")
	}
	el, nerr := dr.Next(vInt("choice"))
	vAssert(nerr == nil && el != nil && el.Line != nil && el.Line.Text == lines[0] && el.Node == titles[0], "the dialogue starts at the first node of the first reader")
	el2, nerr2 := dr.Next(vInt("choice2"))
	vAssert(nerr2 == nil && el2 == nil, "running off the first node ends the dialogue (no fall through into the next node)")
	if len(titles) > 1 {
		vReach("several-nodes")
		_, ok := dr.dialogue.FindNode(titles[len(titles)-1])
		vAssert(ok, "nodes of later readers can be jumped to")
	}
}

// VHLoadText: loading a concrete script text through the public API never panics, and text that is
// not a valid script is an error. Under the engine FromReader is stubbed (every text outside the
// stub's table is a syntax error), so this harness decides something only natively: it is the replay
// vehicle of the C05 witnesses in known_findings.json, which run on the real lexer and parser.
func VHLoadText() {
	n := vParam("N", 2)
	text := vString("text", n)
	var dr *DialogueRunner
	var err error
	panicked := vTry(func() { dr, err = NewDialogueRunner(nil, "a", strings.NewReader(text)) })
	vAssert(!panicked, "loading never panics")
	vAssert((dr == nil) == (err != nil), "a runner or an error")
	if vParam("INVALID", 1) != 0 {
		vAssert(err != nil, "input that is not a valid script is an error")
	}
	vReach("loaded")
}
