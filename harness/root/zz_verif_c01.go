package ysgo

import (
	"github.com/remieven/ysgo/internal/container"
	"github.com/remieven/ysgo/internal/tree"
	"github.com/remieven/ysgo/variable"
)

// C01 / C06 / C11 / C12: one Next step from an arbitrary runner state against the reference
// semantics on the flattened continuation.

func vCopyVisits(m map[string]int) map[string]int {
	out := map[string]int{}
	for k, v := range m {
		out[k] = v
	}
	return out
}

func (w *vWorld) tracked(title string) bool {
	n := w.findNode(title)
	return n != nil && n.Headers != nil && n.Headers["tracking"] != "never"
}

// vCheckYield compares a returned element with the statement the reference yields.
func (w *vWorld) vCheckYield(el *DialogueElement, s *tree.Statement, env *vSpecEnv, node string) {
	vAssert(el != nil, "an element is returned")
	vAssert(el.Node == node, "the element is attributed to the current node")
	if s.LineStatement != nil {
		vReach("yield-line")
		vAssert(el.Line != nil && len(el.Options) == 0, "a line statement yields a line")
		vAssert(el.Line.Text == w.lines[s], "the line is the next statement in document order")
		return
	}
	vReach("yield-options")
	g := s.ShortcutOptionStatement
	vAssert(el.Line == nil, "an option group yields options")
	vAssert(len(el.Options) == len(g.Options), "every option is listed")
	for i, o := range g.Options {
		vAssert(el.Options[i].Line != nil && el.Options[i].Line.Text == o.LineStatement.Text.Elements[0].Text, "options keep their order and text")
		want := false
		if o.LineStatement.Condition != nil {
			b, _ := env.cond(o.LineStatement.Condition)
			want = !b
		}
		vAssert(el.Options[i].Disabled == want, "Disabled exactly when the condition is false")
	}
}

// vStep runs one Next from world w and checks it against the reference. Returns (element, error, spec).
func (w *vWorld) vStep() (*DialogueElement, error, vSpecOutcome) {
	dr := w.dr
	K0 := vFlatten(dr)
	node0 := dr.currentNode
	env := vEnvOf(w.store)
	visits0 := vCopyVisits(dr.visitedNodes)
	nH, nP := len(w.handlers), len(w.probes)
	env.probeOK = func(i int) bool { return !vBool("probe." + vItoa(nP+i) + ".fails") }
	env.visits = visits0

	var el *DialogueElement
	var err error
	panicked := vTry(func() { el, err = dr.Next(w.choice) })
	vAssert(!panicked, "Next never panics")
	spec := w.vSpecNext(env, K0, w.waiting, node0, w.choice)

	switch {
	case spec.fail:
		vReach("fail")
		vAssert(err != nil && el == nil, "a script-level fault surfaces as an error")
		vAssert(err != ErrWaitingForCommandCompletion, "a fault is not reported as a pending command")
	case spec.pending:
		vReach("pending")
		vAssert(el == nil && err == ErrWaitingForCommandCompletion, "a pending command is reported as such")
		vAssert(vSameStatements(vFlatten(dr), spec.K), "continuation while a command is pending")
	case spec.end:
		vReach("end")
		if spec.stopped {
			vReach("end-by-stop")
		} else if w.waiting != nil {
			vReach("end-after-choice")
		}
		vAssert(el == nil && err == nil, "the end of the dialogue is (nil, nil)")
	default:
		vAssert(err == nil, "no error when the reference yields")
		if err == nil {
			w.vCheckYield(el, spec.yield, env, spec.node)
			vAssert(vSameStatements(vFlatten(dr), spec.K), "the continuation after a yield is the rest of the script in order")
			vAssert(dr.isWaitingForChoice() == (spec.yield.ShortcutOptionStatement != nil), "waiting for a choice exactly after an option group")
		}
	}
	if !spec.fail {
		vAssert(dr.currentNode == spec.node, "current node")
	}
	vAssert(len(w.handlers)-nH == spec.nCmd, "each executed command statement invokes its handler exactly once")
	if len(w.handlers) > nH && w.handlers[nH].name == "cmd" {
		a := w.handlers[nH].args
		vAssert(len(a) == 2 && vKind(a[0]) == 0 && *a[0].Number == 3 && vKind(a[1]) == 2 && *a[1].String == "arg", "the handler receives the arguments in order")
		vReach("handler-args")
	}
	vAssert(len(w.probes)-nP == spec.nProbe, "each executed call statement invokes its function exactly once")
	nv := 0
	for _, h := range w.handlers[nH:] {
		if h.name != "cmdv" {
			continue
		}
		if nv < len(spec.cmdv) {
			a := h.args
			vAssert(len(a) == 2 && vKind(a[0]) == 0 && vKind(a[1]) == 0, "the handler receives both arguments as numbers")
			if len(a) == 2 && vKind(a[0]) == 0 && vKind(a[1]) == 0 {
				ci, exact := vExactInt(*a[0].Number)
				wi, _ := vExactInt(spec.cmdv[nv][0])
				vAssert(exact && ci == wi && vSameFloat(*a[1].Number, spec.cmdv[nv][1]), "the handler receives the values its arguments have when the command runs")
			}
			vReach("handler-args-evaluated")
		}
		nv++
	}
	// what the next step starts from (repeated use): after a fault the runner says itself whether it awaits a choice
	switch {
	case spec.fail:
		w.waiting = nil
		if dr.isWaitingForChoice() {
			w.waiting = dr.lastStatement.ShortcutOptionStatement
		}
	case !spec.pending && !spec.end && err == nil && spec.yield != nil && spec.yield.ShortcutOptionStatement != nil:
		w.waiting = spec.yield.ShortcutOptionStatement
	default:
		w.waiting = nil
	}

	// C11: counts change only by +1 per successful jump, for the node left, unless tracking: never
	for _, t := range w.titles {
		want := visits0[t]
		for _, left := range spec.jumps {
			if left == t && w.tracked(t) {
				want++
			}
		}
		vAssert(dr.visitedNodes[t] == want, "visit count = completed tracked visits")
	}
	_, zz := dr.visitedNodes["zz"]
	vAssert(!zz && len(dr.visitedNodes) <= 3, "only nodes are counted")
	if len(spec.jumps) > 0 {
		vReach("jumped")
	}
	return el, err, spec
}

// VHNextStep (C01, C11): well-formed heads.
func VHNextStep() {
	w := vNewWorld(vParam("BUDGET", 2), false)
	w.vStep()
}

// VHVisitedFns (C11): a step whose head is a jump, then visited / visited_count as scripts see them.
func VHVisitedFns() {
	w := vNewWorld(1, false)
	w.vStep()
	// another dialogue of the same process with other counts: what it counts is its own business
	if vChoose("other.runner", 2) == 1 {
		other := vBaseRunner(variable.NewInMemoryStorer())
		for _, t := range w.titles {
			other.visitedNodes[t] = w.dr.visitedNodes[t] + 1
		}
		other.visitedNodes["zz"] = 1
		vReach("other-runner")
	}
	w.vCheckVisitedFunctions()
}

// VHNextFaults (C06): heads include script-level faults; after any outcome a second Next must not panic.
func VHNextFaults() {
	w := vNewWorld(vParam("BUDGET", 2), true)
	_, err, spec := w.vStep()
	if err != nil && err != ErrWaitingForCommandCompletion {
		vReach("error-then-next")
	}
	// the runner stays usable: a further call returns normally (element, end or error)
	c2 := vInt("choice2")
	if w.dr.isWaitingForChoice() {
		vAssume(0 <= c2 && c2 < len(w.dr.lastStatement.ShortcutOptionStatement.Options))
	}
	_ = spec
	panicked := vTry(func() { w.dr.Next(c2) })
	vAssert(!panicked, "the runner remains usable after any outcome")
}

// VHVisitsAcrossRestore (C11): counts are unaffected by anything but jumps and restores: after restoring an
// arbitrary snapshot into a runner with another history the functions report the snapshot's counts, and
// after the jump that follows, the count of the node left is one more (unless it is not tracked).
func VHVisitsAcrossRestore() {
	w := vNewWorld(0, false)
	dr := w.dr
	w.nodes[1].Statements[0] = &tree.Statement{JumpStatement: &tree.JumpStatement{Expression: vValExpr(variable.NewString("n2"))}}
	s := &Snapshot{CurrentNode: "n1", Variables: map[string]variable.Value{}, VisitedNodes: map[string]int{}}
	for i := 0; i < 3; i++ {
		if vChoose("snap.visited"+vItoa(i), 2) == 1 {
			c := vInt("snap.visited" + vItoa(i) + ".count")
			vAssume(vAnd(c >= 1, c < 1<<40))
			// no history gives a node that is never tracked a count: snapshots holding one are outside the claim
			vAssume(w.tracked(w.titles[i]))
			s.VisitedNodes[w.titles[i]] = c
		}
	}
	want := map[string]int{}
	for k, v := range s.VisitedNodes {
		want[k] = v
	}
	if dr.RestoreAt(s) != nil {
		vAssume(false)
	}
	names := []string{"n0", "n1", "n2", "zz"}
	check := func(what string) {
		for _, name := range names {
			cnt, vis := vScriptVisits(dr, name)
			ci, exact := vExactInt(cnt)
			vAssert(exact && ci == want[name], "visited_count "+what)
			vAssert(vis == (want[name] > 0), "visited "+what)
		}
	}
	check("after a restore is the snapshot's count")
	var el *DialogueElement
	var err error
	panicked := vTry(func() { el, err = dr.Next(vInt("choice.after.restore")) })
	vAssert(!panicked && err == nil && el != nil && el.Node == "n2", "the restored runner runs the node's jump")
	if w.tracked("n1") {
		want["n1"]++
		vReach("tracked-after-restore")
	} else {
		vReach("untracked-after-restore")
	}
	check("after a restore and a jump counts that jump")
}

// vScriptVisits: visited_count(name) and visited(name) as a script of runner dr sees them.
func vScriptVisits(dr *DialogueRunner, name string) (float64, bool) {
	cnt, err := dr.functionStorer.call("visited_count", []*variable.Value{variable.NewString(name)})
	vAssert(err == nil && vKind(cnt) == 0, "visited_count returns a number")
	vis, err2 := dr.functionStorer.call("visited", []*variable.Value{variable.NewString(name)})
	vAssert(err2 == nil && vKind(vis) == 1, "visited returns a boolean")
	if err != nil || err2 != nil || vKind(cnt) != 0 || vKind(vis) != 1 {
		vAssume(false)
	}
	return *cnt.Number, *vis.Boolean
}

// vCheckVisitedFunctions (C11): visited / visited_count as scripts see them.
func (w *vWorld) vCheckVisitedFunctions() {
	names := []string{"n0", "n1", "n2", "zz"}
	name := names[vChoose("visitedfn.arg", 4)]
	cnt, err := w.dr.functionStorer.call("visited_count", []*variable.Value{variable.NewString(name)})
	vAssert(err == nil && vKind(cnt) == 0, "visited_count returns a number")
	vis, err := w.dr.functionStorer.call("visited", []*variable.Value{variable.NewString(name)})
	vAssert(err == nil && vKind(vis) == 1, "visited returns a boolean")
	want := 0
	if c, ok := w.dr.visitedNodes[name]; ok {
		want = c
	}
	ci, exact := vExactInt(*cnt.Number)
	vAssert(exact && ci == want, "visited_count(n) is the visit count")
	vAssert(*vis.Boolean == (want > 0), "visited(n) iff the count is positive")
	if name == "zz" {
		vAssert(*cnt.Number == 0 && !*vis.Boolean, "names that are not nodes count 0")
	}
	if !w.tracked(name) && name != "zz" {
		vReach("never-tracked")
	}
	vReach("visited-fn")
}

// VHEndAbsorbing (C12): whenever a step reports the end, further calls with arbitrary arguments
// report the end again and cause nothing.
func VHEndAbsorbing() {
	w := vNewWorld(vParam("BUDGET", 2), false)
	el, err, _ := w.vStep()
	if !(el == nil && err == nil) {
		return
	}
	vReach("ended")
	before := w.store.GetValues()
	nH, nP := len(w.handlers), len(w.probes)
	visits := vCopyVisits(w.dr.visitedNodes)
	for i := 0; i < 2; i++ {
		c := vInt("after" + vItoa(i))
		var el2 *DialogueElement
		var err2 error
		panicked := vTry(func() { el2, err2 = w.dr.Next(c) })
		vAssert(!panicked, "Next after the end does not panic")
		vAssert(el2 == nil && err2 == nil, "the end is reported again")
	}
	vAssert(vStoreEq(before, w.store.GetValues()), "no variable changes after the end")
	vAssert(len(w.handlers) == nH && len(w.probes) == nP, "no command or function runs after the end")
	for _, t := range w.titles {
		vAssert(w.dr.visitedNodes[t] == visits[t], "visit counts do not change after the end")
	}
}

// VHRevisit (C01, C06, C10): a run of STEPS calls on a script that loops: node n0 is [S, line, jump n0] with S a
// statement of arbitrary kind, every step checked against the reference. The same statements are executed
// again and again while the host rewrites every variable between two calls, so whatever a step leaves behind
// (in the runner or anywhere else) that changes how a statement behaves the next time it runs shows up.
func VHRevisit() {
	bad := vParam("BAD", 0) != 0
	w := vNewWorld(0, bad) // params: DEPTH=0 LAST=0 (a runner that has not started), VISCFG
	dr := w.dr
	S := w.vStatement("head", vParam("BUDGET", 1), bad)
	back := &tree.Statement{JumpStatement: &tree.JumpStatement{Expression: vValExpr(variable.NewString("n0"))}}
	w.nodes[0].Statements = []*tree.Statement{S, w.newLineStmt("L"), back}
	if bad {
		// a well-formed command follows (whatever a fault left behind must not reach it)
		w.nodes[0].Statements = []*tree.Statement{S, w.newLineStmt("L"), vCommandStmt(variable.NewString("cmd"), variable.NewNumber(3), variable.NewString("arg")), back}
	}
	// the other nodes lead back to n0, too
	for i := 1; i <= 2; i++ {
		w.nodes[i].Statements = append(w.nodes[i].Statements, &tree.Statement{JumpStatement: &tree.JumpStatement{Expression: vValExpr(variable.NewString("n0"))}})
	}
	vAssume(dr.currentNode == "n0")
	stack := container.Stack[*statementQueue]{}
	stack.Push(&statementQueue{statements: w.nodes[0].Statements})
	dr.statementsToRun = stack
	steps := vParam("STEPS", 5)
	for i := 0; i < steps; i++ {
		t := "step" + vItoa(i)
		if w.waiting != nil {
			w.choice = vChoose(t+".choice", len(w.waiting.Options))
		} else {
			w.choice = vInt(t + ".choice")
		}
		// calls in which the script itself loops without ever yielding (a jump back to n0 reached before any
		// line) do not return: the reference is run first, it leaves such paths by its fuel assumption
		pre := vEnvOf(w.store)
		nP := len(w.probes)
		pre.probeOK = func(i int) bool { return !vBool("probe." + vItoa(nP+i) + ".fails") }
		pre.visits = vCopyVisits(dr.visitedNodes)
		w.vSpecNext(pre, vFlatten(dr), w.waiting, dr.currentNode, w.choice)
		el, err, spec := w.vStep()
		if spec.end && !spec.fail {
			vReach("run-ended")
			return
		}
		if spec.pending && w.pending != nil {
			w.pending <- nil // the handler reports completion before the next call
			w.pending = nil
		}
		_, _ = el, err
		if len(spec.jumps) > 0 && spec.node == "n0" {
			vReach("revisited")
		}
		// the host rewrites the variables between two calls (keeping their types)
		w.store.SetBooleanValue("b0", vBool(t+".b0"))
		w.store.SetBooleanValue("b1", vBool(t+".b1"))
		w.store.SetStringValue("s0", vString(t+".s0", 2))
		w.store.SetNumberValue("x", vFloat(t+".x"))
		if vParam("JUMPCAT", 0) != 0 {
			w.store.SetStringValue("c0", vString(t+".c0", 1))
		}
	}
	vReach("run-bounded")
}
