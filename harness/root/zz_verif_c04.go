package ysgo

import (
	"fmt"
	"strconv"

	"github.com/remieven/ysgo/internal/tree"
	"github.com/remieven/ysgo/variable"
)

// C04: rendering of lines and options: literal text and inline expressions in order, display forms,
// tags, Disabled. (What the lexer decides -- escapes, comments, where a hashtag starts -- is outside.)

func vPlainByte(name string) byte {
	c := vByte(name)
	vAssume(vAnd(vAnd(c > ' ', c < 0x7f), vAnd(vAnd(c != '[', c != ']'), vAnd(c != '\\', c != ':'))))
	return c
}

// vTextElement: a literal of 1..2 plain characters, or an inline expression of some type.
// Returns the element and its expected rendering.
func vTextElement(tag string, st *variable.InMemoryStorer) (*tree.LineFormattedTextElement, string) {
	el, want, _ := vTextElementRW(tag, st)
	return el, want
}

// vTextElementRW also returns, for elements that read a variable, what a host does between two renderings:
// it writes a new value into the storer; the closure does so and returns the new expected rendering.
func vTextElementRW(tag string, st *variable.InMemoryStorer) (*tree.LineFormattedTextElement, string, func() string) {
	el, want := vTextElement0(tag, st)
	if el.Expression != nil && el.Expression.VariableID != nil && *el.Expression.VariableID == tag {
		return el, want, func() string {
			b := vBool(tag + ".b.rewritten")
			st.SetBooleanValue(tag, b)
			if b {
				return "True"
			}
			return "False"
		}
	}
	return el, want, nil
}

func vTextElement0(tag string, st *variable.InMemoryStorer) (*tree.LineFormattedTextElement, string) {
	switch vChoose(tag+".kind", 9) {
	case 6: // a literal with an escaped bracket (resolved by the markup pass)
		c := string([]byte{vPlainByte(tag + ".c0")})
		if vChoose(tag+".which", 2) == 0 {
			return &tree.LineFormattedTextElement{Text: c + "\\]"}, c + "]"
		}
		return &tree.LineFormattedTextElement{Text: c + "\\["}, c + "["
	case 7: // a negated number literal
		i := 1 + int(vByte(tag+".i"))
		return &tree.LineFormattedTextElement{Expression: &tree.Expression{NegativeExpression: vValExpr(variable.NewNumber(float64(i)))}}, strconv.Itoa(-i)
	case 8: // not <boolean literal>
		b := vChoose(tag+".b", 2) == 1
		want := "True"
		if b {
			want = "False"
		}
		return &tree.LineFormattedTextElement{Expression: &tree.Expression{NotExpression: vValExpr(variable.NewBoolean(b))}}, want
	case 0:
		lit := string([]byte{vPlainByte(tag + ".c0")})
		if vChoose(tag+".two", 2) == 1 {
			lit += " " + string([]byte{vPlainByte(tag + ".c1")})
		}
		return &tree.LineFormattedTextElement{Text: lit}, lit
	case 1: // integral number: displayed without a decimal point
		i := int(vByte(tag + ".i")) // 0..255, a single symbolic byte (cheap to decide), optionally negated
		if vChoose(tag+".neg", 2) == 1 {
			i = -i
		}
		return &tree.LineFormattedTextElement{Expression: vValExpr(variable.NewNumber(float64(i)))}, strconv.Itoa(i)
	case 2: // non-integral numbers from a finite set: shortest round-trip decimal (strconv's digits)
		x := []float64{0.5, -2.25, 1234.5678, 1e-7, 0.1}[vChoose(tag+".x", 5)]
		return &tree.LineFormattedTextElement{Expression: vValExpr(variable.NewNumber(x))}, fmt.Sprint(x)
	case 3: // boolean from a variable
		b := vBool(tag + ".b")
		st.SetBooleanValue(tag, b)
		want := "False"
		if b {
			want = "True"
		}
		return &tree.LineFormattedTextElement{Expression: vVarExpr(tag)}, want
	case 4: // string verbatim
		s := string([]byte{vPlainByte(tag + ".s")})
		return &tree.LineFormattedTextElement{Expression: vValExpr(variable.NewString(s))}, s
	default: // a computed value: concatenation of two strings
		a, b := string([]byte{vPlainByte(tag + ".a")}), string([]byte{vPlainByte(tag + ".b")})
		op := tree.AdditionBinaryOperator
		return &tree.LineFormattedTextElement{Expression: &tree.Expression{Operator: &op, LeftOperand: vValExpr(variable.NewString(a)), RightOperand: vValExpr(variable.NewString(b))}}, a + b
	}
}

func vLineStatement(tag string, n int, st *variable.InMemoryStorer) (*tree.LineStatement, string) {
	ls, want, _ := vLineStatementRW(tag, n, st)
	return ls, want
}

// vLineStatementRW: also returns the host's rewriting of every variable the line reads (see vTextElementRW).
func vLineStatementRW(tag string, n int, st *variable.InMemoryStorer) (*tree.LineStatement, string, func() string) {
	ls := &tree.LineStatement{Text: &tree.LineFormattedText{}}
	want := ""
	var parts []string
	var rws []func() string
	for i := 0; i < n; i++ {
		el, w, rw := vTextElementRW(tag+".e"+vItoa(i), st)
		ls.Text.Elements = append(ls.Text.Elements, el)
		want += w
		parts = append(parts, w)
		rws = append(rws, rw)
	}
	return ls, want, func() string {
		out := ""
		for i, rw := range rws {
			if rw != nil {
				out += rw()
			} else {
				out += parts[i]
			}
		}
		return out
	}
}

func vRunnerOver(st *variable.InMemoryStorer, stmts ...*tree.Statement) *DialogueRunner {
	return vRunnerAt(st, &tree.Dialogue{}, "n", stmts...)
}

func vTagsEq(a, b []string) bool {
	if len(a) != len(b) {
		return false
	}
	for i := range a {
		if a[i] != b[i] {
			return false
		}
	}
	return true
}

// VHLineRendering: a line of ELEMS elements with 0..2 tags.
func VHLineRendering() {
	st := variable.NewInMemoryStorer()
	ls, want, rewrite := vLineStatementRW("line", vParam("ELEMS", 2), st)
	tags := []string{"t1", "t2"}[:vChoose("ntags", 3)]
	ls.Tags = tags
	stmt := &tree.Statement{LineStatement: ls}
	dr := vRunnerOver(st, stmt, stmt) // the same statement is shown twice (as when its node is entered again)
	if vChoose("fault.first", 2) == 1 {
		// a line whose inline expression fails after some text was assembled comes first: it is an error, and
		// nothing of it shows in what is rendered afterwards
		faulty := &tree.Statement{LineStatement: &tree.LineStatement{Text: &tree.LineFormattedText{Elements: []*tree.LineFormattedTextElement{
			{Text: "Zz "}, {Expression: vVarExpr("nosuchvariable")}}}}}
		dr = vRunnerOver(st, faulty, stmt, stmt)
		el, err := dr.Next(vInt("choice"))
		vAssert(err != nil && el == nil, "a line whose inline expression fails is an error")
		vReach("fault-first")
	}
	for round := 0; round < 2; round++ {
		if round == 1 {
			want = rewrite() // the host wrote new values meanwhile: the line shows them
		}
		el, err := dr.Next(vInt("choice"))
		vAssert(err == nil && el != nil && el.Line != nil, "a line is returned")
		if err != nil || el == nil || el.Line == nil {
			return
		}
		vAssert(el.Line.Text == want, "the text is the literals and the display forms of the inline values, in order")
		vAssert(vTagsEq(el.Line.Tags, tags), "the tags are returned in order")
		vAssert(len(el.Line.Attributes) == 0, "plain text carries no markup")
	}
	vReach("line")
}

// VHOptionRendering: OPTS options, each with one or two elements, a condition absent / true / false /
// non-boolean / failing, and tags.
func VHOptionRendering() {
	st := variable.NewInMemoryStorer()
	n := 1 + vChoose("nopts", vParam("OPTS", 2))
	g := &tree.ShortcutOptionStatement{}
	var wantText []string
	var wantDisabled []bool
	var rewrites []func() string
	bad := false
	for i := 0; i < n; i++ {
		tag := "o" + vItoa(i)
		ls, w, rw := vLineStatementRW(tag, 1, st)
		rewrites = append(rewrites, rw)
		ls.Tags = []string{tag}
		switch vChoose(tag+".cond", 5) {
		case 4: // not <boolean literal>
			b := vChoose(tag+".notlit", 2) == 1
			ls.Condition = &tree.Expression{NotExpression: vValExpr(variable.NewBoolean(b))}
			wantDisabled = append(wantDisabled, b)
		case 0:
			wantDisabled = append(wantDisabled, false)
		case 1:
			b := vBool(tag + ".condv")
			st.SetBooleanValue(tag+"c", b)
			ls.Condition = vVarExpr(tag + "c")
			wantDisabled = append(wantDisabled, !b)
		case 2:
			ls.Condition = vValExpr(variable.NewNumber(1))
			bad = true
			wantDisabled = append(wantDisabled, false)
		case 3:
			ls.Condition = vVarExpr("nosuchvariable")
			bad = true
			wantDisabled = append(wantDisabled, false)
		}
		wantText = append(wantText, w)
		g.Options = append(g.Options, &tree.ShortcutOption{LineStatement: ls})
	}
	stmt := &tree.Statement{ShortcutOptionStatement: g}
	dr := vRunnerOver(st, stmt, stmt)
	for round := 0; round < 2; round++ { // the same group is presented twice (as when its node is entered again)
		if round == 1 {
			for i, rw := range rewrites { // the host wrote new values meanwhile
				wantText[i] = rw()
			}
		}
		el, err := dr.Next(0) // (second round: chooses option 0, whose body is empty, and goes on to the group again)
		vAssert((err != nil) == bad, "an option group fails exactly when a condition is not a boolean")
		if err != nil {
			vReach("bad-condition")
			return
		}
		vAssert(el != nil && el.Line == nil && len(el.Options) == n, "conditions never remove an option")
		for i := 0; i < n; i++ {
			o := el.Options[i]
			vAssert(o.Line != nil && o.Line.Text == wantText[i], "options keep their order and text")
			vAssert(o.Disabled == wantDisabled[i], "Disabled exactly when the option's condition is false")
			vAssert(len(o.Line.Tags) == 1 && o.Line.Tags[0] == "o"+vItoa(i), "each option keeps its own tags")
		}
	}
	vReach("options")
}

// vMultiByte: one character encoded in two or three bytes (symbolic), not a Unicode space.
func vMultiByte(tag string) string {
	if vChoose(tag+".three", 2) == 0 {
		l, c := vByte(tag+".l"), vByte(tag+".c")
		vAssume(vAnd(vAnd(l >= 0xC2, l <= 0xDF), vAnd(c >= 0x80, c <= 0xBF)))
		vAssume(!vAnd(l == 0xC2, vOr(c == 0x85, c == 0xA0))) // U+0085, U+00A0 are spaces
		return string([]byte{l, c})
	}
	l, c, d := vByte(tag+".l"), vByte(tag+".c"), vByte(tag+".d")
	vAssume(vAnd(vAnd(l >= 0xE1, l <= 0xEC), vAnd(vAnd(c >= 0x80, c <= 0xBF), vAnd(d >= 0x80, d <= 0xBF))))
	// the spaces of that range: U+1680, U+2000..U+200A, U+2028, U+2029, U+202F, U+205F, U+3000 (all of E2 80 xx is left out)
	vAssume(!vAnd(l == 0xE1, vAnd(c == 0x9A, d == 0x80)))
	vAssume(!vAnd(l == 0xE2, vOr(c == 0x80, vAnd(c == 0x81, d == 0x9F))))
	vAssume(!vAnd(l == 0xE3, vAnd(c == 0x80, d == 0x80)))
	return string([]byte{l, c, d})
}

// VHDisplayForms (C04): the display forms the element generator above leaves out, one line each: whole numbers beyond
// the 32-bit range (a finite set up to 2^52) are shown as integers, without a decimal point or an exponent; literal text and string
// values made of multi-byte characters (two- and three-byte encodings, any continuation bytes) are shown
// verbatim, at the edges of the line as well as inside.
func VHDisplayForms() {
	st := variable.NewInMemoryStorer()
	var els []*tree.LineFormattedTextElement
	want := ""
	form := vParam("FORM", -1)
	if form < 0 {
		form = vChoose("form", 5)
	}
	switch form {
	case 0:
		// wide whole numbers from a finite set around the 32-bit and 2^52 boundaries (a symbolic 64-bit decimal
		// rendering is a division kernel the solvers do not finish; narrow whole numbers are symbolic in VHLineRendering)
		i := []int{2147483647, 2147483648, -2147483648, -2147483649, 4294967296, 8000000000, -3000000000, 1000000000000000,
			4503599627370495, -4503599627370496}[vChoose("whole", 10)]
		els = []*tree.LineFormattedTextElement{{Expression: vValExpr(variable.NewNumber(float64(i)))}}
		want = strconv.Itoa(i)
		vReach("whole-number")
	case 1: // the line ends with a multi-byte character
		want = string([]byte{vPlainByte("c")}) + vMultiByte("m")
		els = []*tree.LineFormattedTextElement{{Text: want}}
		vReach("multi-byte-end")
	case 2: // ... begins with one
		want = vMultiByte("m") + string([]byte{vPlainByte("c")})
		els = []*tree.LineFormattedTextElement{{Text: want}}
	case 3: // ... is one
		want = vMultiByte("m")
		els = []*tree.LineFormattedTextElement{{Text: want}}
	default: // a string value ending with one, interpolated at the end of the line
		s := string([]byte{vPlainByte("c")}) + vMultiByte("m")
		els = []*tree.LineFormattedTextElement{{Text: "x "}, {Expression: vValExpr(variable.NewString(s))}}
		want = "x " + s
		vReach("multi-byte-value")
	}
	stmt := &tree.Statement{LineStatement: &tree.LineStatement{Text: &tree.LineFormattedText{Elements: els}}}
	dr := vRunnerOver(st, stmt)
	el, err := dr.Next(vInt("choice"))
	vAssert(err == nil && el != nil && el.Line != nil, "a line is returned")
	if err != nil || el == nil || el.Line == nil {
		return
	}
	vAssert(el.Line.Text == want, "whole numbers are shown as integers, multi-byte text verbatim")
}
