package markup

import (
	"strconv"
	"unicode/utf8"
)

// C13: generate-and-compare. The harness assembles a line from a template (chosen by forking)
// whose contents are symbolic, computing the expected plain text and attributes while assembling.

type vExpProp struct {
	name string
	val  Value
}

type vExpAttr struct {
	name   string
	pos    int
	length int
	props  []vExpProp
	closed bool
}

type vGen struct {
	line  []byte
	text  []byte // expected plain text (UTF-8)
	chars int    // number of characters in text
	attrs []*vExpAttr
	open  []*vExpAttr // unclosed open markers, oldest first
	ctr   int
	lastPlainIsSpace bool
	wsOn             bool
	lean             bool // scripted templates: one character per chunk, no whitespace inside markers
}

func vItoa(i int) string { return strconv.Itoa(i) }

// vPlainASCII: printable, not whitespace, not markup-significant ([ ] \ :)
func vPlainASCII(c byte) bool {
	return vAnd(vAnd(c > ' ', c < 0x7f), vAnd(vAnd(c != '[', c != ']'), vAnd(c != '\\', c != ':')))
}

func vDigit(c byte) bool { return vAnd(c >= '0', c <= '9') }

func (g *vGen) tag(s string) string {
	g.ctr++
	return s + vItoa(g.ctr)
}

// plainChar appends one character of plain text: class 0 a symbolic printable ASCII character that is
// not markup-significant (no [ ] \ :) and not whitespace, class 1 a space, class 2 a two-byte character.
func (g *vGen) plainChar(allowSpace bool) {
	t := g.tag("ch")
	n := 2
	if allowSpace {
		n = 3
	}
	if g.lean {
		n = 2 // scripted templates: an ASCII or a two-byte character (positions in characters, not bytes), no spaces
	}
	switch vChoose(t+".class", n) {
	case 0:
		c := vByte(t)
		vAssume(vPlainASCII(c))
		g.line = append(g.line, c)
		g.text = append(g.text, c)
		g.lastPlainIsSpace = false
	case 1:
		c := vByte(t)
		vAssume(vAnd(c >= 0xa1, c <= 0xbf)) // U+00E1..U+00FF
		g.line = append(g.line, 0xc3, c)
		g.text = append(g.text, 0xc3, c)
		g.lastPlainIsSpace = false
	case 2:
		g.line = append(g.line, ' ')
		g.text = append(g.text, ' ')
		g.lastPlainIsSpace = true
	}
	g.chars++
}

// ws appends markup-internal whitespace: per marker either none anywhere or one space at every
// position where the grammar allows it (chosen once per marker by wsOn).
func (g *vGen) ws() {
	if g.wsOn {
		g.line = append(g.line, ' ')
	}
}

// property appends ` name=value` with a value of a symbolic type and returns the expectation.
func (g *vGen) property(name string) vExpProp {
	t := g.tag("prop")
	g.line = append(g.line, name...)
	g.line = append(g.line, '=')
	p := vExpProp{name: name}
	switch vChoose(t+".type", 6) {
	case 0: // integer, 1..2 digits
		d0 := vByte(t + ".d0")
		vAssume(vDigit(d0))
		g.line = append(g.line, d0)
		v := int(d0 - '0')
		if vChoose(t+".digits", 2) == 1 {
			d1 := vByte(t + ".d1")
			vAssume(vDigit(d1))
			g.line = append(g.line, d1)
			v = v*10 + int(d1-'0')
		}
		p.val = Value{IntegerValue: v, ValueType: ValueTypeInteger}
	case 1: // decimal d.dd
		d0, d1, d2 := vByte(t+".d0"), vByte(t+".d1"), vByte(t+".d2")
		vAssume(vAnd(vDigit(d0), vAnd(vDigit(d1), vDigit(d2))))
		lit := []byte{d0, '.', d1, d2}
		g.line = append(g.line, lit...)
		f, err := strconv.ParseFloat(string(lit), 64)
		vAssume(err == nil)
		p.val = Value{FloatValue: f, ValueType: ValueTypeFloat}
	case 2:
		g.line = append(g.line, "true"...)
		p.val = Value{BoolValue: true, ValueType: ValueTypeBool}
	case 3:
		g.line = append(g.line, "false"...)
		p.val = Value{BoolValue: false, ValueType: ValueTypeBool}
	case 4: // bare word: a symbolic letter, not spelling true/false
		c := vByte(t + ".w")
		vAssume(vAnd(c >= 'a', c <= 'z'))
		g.line = append(g.line, c, 'q')
		p.val = Value{StringValue: string([]byte{c, 'q'}), ValueType: ValueTypeString}
	case 5: // quoted string with a space and an escaped quote
		c := vByte(t + ".q")
		vAssume(vAnd(vAnd(c >= ' ', c < 0x7f), vAnd(c != '"', c != '\\')))
		g.line = append(g.line, '"', c, ' ', '\\', '"', '"')
		p.val = Value{StringValue: string([]byte{c, ' ', '"'}), ValueType: ValueTypeString}
	}
	return p
}

func (g *vGen) markerHead(name string, shorthand bool, nprops int) []vExpProp {
	var props []vExpProp
	g.line = append(g.line, '[')
	g.ws()
	if shorthand {
		props = append(props, g.property(name))
	} else {
		g.line = append(g.line, name...)
	}
	pnames := []string{"p", "q", "r"}
	for i := 0; i < nprops; i++ {
		g.line = append(g.line, ' ')
		props = append(props, g.property(pnames[i]))
	}
	g.ws()
	return props
}

func (g *vGen) closeAttr(a *vExpAttr) {
	a.length = g.chars - a.pos
	a.closed = true
	g.attrs = append(g.attrs, a)
}

// item appends one template item.
func (g *vGen) item(maxProps int, last bool) {
	g.itemOfKind(vChoose("item"+vItoa(g.ctr+1)+".kind", 6), maxProps, last) // the name itemOfKind's tag will have
}

// itemOfKind appends one template item of the given kind (scripted templates fix the kinds and leave names,
// contents and properties symbolic).
func (g *vGen) itemOfKind(kind int, maxProps int, last bool) {
	t := g.tag("item")
	if kind >= 2 {
		g.wsOn = !g.lean && vChoose(t+".ws", 2) == 1
	}
	if last && g.chars == 0 {
		vAssume(kind <= 1) // a line without any plain text is outside the generator (see the final assumption)
	}
	switch kind {
	case 0: // text chunk of 1..2 characters
		g.plainChar(g.chars > 0)
		if !g.lean && vChoose(t+".two", 2) == 1 {
			g.plainChar(true)
		}
	case 1: // escaped bracket
		if vChoose(t+".which", 2) == 0 {
			g.line = append(g.line, '\\', '[')
			g.text = append(g.text, '[')
		} else {
			g.line = append(g.line, '\\', ']')
			g.text = append(g.text, ']')
		}
		g.chars++
		g.lastPlainIsSpace = false
	case 2: // open marker
		name := []string{"a", "b"}[vChoose(t+".name", 2)]
		shorthand := false
		if vParam("SHORTHAND", 1) != 0 {
			shorthand = vChoose(t+".shorthand", 2) == 1
		}
		props := g.markerHead(name, shorthand, vChoose(t+".nprops", maxProps+1))
		g.line = append(g.line, ']')
		a := &vExpAttr{name: name, pos: g.chars, props: props}
		g.open = append(g.open, a)
	case 3: // close marker by name: closes the oldest unclosed marker of that name
		name := []string{"a", "b"}[vChoose(t+".name", 2)]
		idx := -1
		for i, o := range g.open {
			if o.name == name {
				idx = i
				break
			}
		}
		vAssume(idx >= 0)
		g.line = append(g.line, '[')
		g.ws()
		g.line = append(g.line, '/')
		g.ws()
		g.line = append(g.line, name...)
		g.ws()
		g.line = append(g.line, ']')
		a := g.open[idx]
		g.open = append(append([]*vExpAttr{}, g.open[:idx]...), g.open[idx+1:]...)
		g.closeAttr(a)
	case 4: // close-all
		vAssume(len(g.open) > 0)
		g.line = append(g.line, '[')
		g.ws()
		g.line = append(g.line, '/')
		g.ws()
		g.line = append(g.line, ']')
		for _, a := range g.open {
			g.closeAttr(a)
		}
		g.open = nil
	case 5: // self-closing marker, placed after a non-space character (the whitespace-swallowing rule has its own harness)
		vAssume(g.chars > 0 && !g.lastPlainIsSpace)
		props := g.markerHead("c", false, vChoose(t+".nprops", maxProps+1))
		g.line = append(g.line, '/', ']')
		g.attrs = append(g.attrs, &vExpAttr{name: "c", pos: g.chars, length: 0, props: props, closed: true})
	}
}

func vPropsMatch(got map[string]Value, want []vExpProp) bool {
	// later properties of the same name win (map semantics); compare as the map the list denotes
	m := map[string]Value{}
	for _, p := range want {
		m[p.name] = p.val
	}
	return vPropsSame(got, m)
}

func vAttrMatches(got Attribute, want *vExpAttr) bool {
	return got.Name == want.name && got.Position == want.pos && got.Length == want.length && vPropsMatch(got.Properties, want.props)
}

// vSubstringChars: characters [pos, pos+n) of a UTF-8 byte string.
func vSubstringChars(b []byte, pos, n int) string {
	i := 0
	for k := 0; k < pos; k++ {
		_, w := utf8.DecodeRune(b[i:])
		i += w
	}
	j := i
	for k := 0; k < n; k++ {
		_, w := utf8.DecodeRune(b[j:])
		j += w
	}
	return string(b[i:j])
}

// VHMarkupTemplate: ITEMS template items, PROPS properties per marker at most.
func VHMarkupTemplate() {
	items := vParam("ITEMS", 3)
	maxProps := vParam("PROPS", 1)
	g := &vGen{}
	if vParam("SCRIPT", 0) == 1 {
		// scripted template: three markers opened (names symbolic over a, b: repeated and distinct names), then closed
		// one by one by name in every order the names allow, a one-character chunk after each marker --
		// the shape in which a close marker has several open markers to choose from and others stay open around it
		g.lean = true
		for i := 0; i < 3; i++ {
			g.itemOfKind(2, maxProps, false)
			g.itemOfKind(0, maxProps, false)
		}
		for i := 0; i < 3; i++ {
			g.itemOfKind(3, maxProps, false)
			g.itemOfKind(0, maxProps, i == 2)
		}
		items = 0
	}
	for i := 0; i < items; i++ {
		g.item(maxProps, i == items-1)
	}
	// the final trim of the text is not part of the statement: keep the plain text free of edge whitespace
	vAssume(g.chars > 0 && !g.lastPlainIsSpace)
	line := string(g.line)
	lp := LineParser{}
	res, err := lp.ParseMarkup(line)
	vAssert(err == nil, "a well-formed line parses")
	if err != nil {
		return
	}
	vReach("parsed")
	vAssert(res.Text == string(g.text), "the plain text is the line with markers removed and brackets unescaped")
	vAssert(len(res.Attributes) == len(g.attrs), "one attribute per closed or self-closing marker")
	if len(res.Attributes) != len(g.attrs) {
		return
	}
	// compare as multisets: the order among attributes is not part of the statement
	for _, want := range g.attrs {
		nWant, nGot := 0, 0
		for _, w2 := range g.attrs {
			if w2.name == want.name && w2.pos == want.pos && w2.length == want.length {
				nWant++
			}
		}
		for _, got := range res.Attributes {
			if got.Name == want.name && got.Position == want.pos && got.Length == want.length {
				nGot++
			}
		}
		vAssert(nWant == nGot, "every marker yields an attribute with its name, position and length in characters")
		found := false
		for _, got := range res.Attributes {
			if vAttrMatches(got, want) {
				found = true
			}
		}
		vAssert(found, "the attribute carries the marker's properties with correctly typed values")
		vReach("attribute")
		if want.length > 0 {
			vReach("nonempty-attribute")
		}
	}
	for _, got := range res.Attributes {
		vAssert(res.TextForAttribute(got) == vSubstringChars(g.text, got.Position, got.Length), "TextForAttribute returns the enclosed text")
	}
}

// VHCharacterPrefix: `Name: text` yields a character attribute covering exactly the prefix.
func VHCharacterPrefix() {
	g := &vGen{}
	nameChars := 1 + vChoose("namelen", 2)
	for i := 0; i < nameChars; i++ {
		g.plainChar(false)
	}
	name := string(g.text)
	g.line = append(g.line, ':')
	g.text = append(g.text, ':')
	g.chars++
	spaces := vChoose("spaces", 3)
	for i := 0; i < spaces; i++ {
		g.line = append(g.line, ' ')
		g.text = append(g.text, ' ')
		g.chars++
	}
	prefix := g.chars
	g.plainChar(false)
	g.plainChar(false)
	lp := LineParser{}
	res, err := lp.ParseMarkup(string(g.line))
	vAssert(err == nil, "a line with a character prefix parses")
	if err != nil {
		return
	}
	vAssert(res.Text == string(g.text), "the text keeps the prefix")
	a, ok := res.Attribute("character")
	vAssert(ok, "a leading `Name: ` yields a character attribute")
	vAssert(a.Position == 0 && a.Length == prefix, "the character attribute covers exactly the prefix, in characters")
	n, has := a.Properties["name"]
	vAssert(has && n.ValueType == ValueTypeString && n.StringValue == name, "the character attribute names the character")
	vAssert(res.TextForAttribute(a) == vSubstringChars(g.text, 0, prefix), "TextForAttribute returns the prefix")
	vReach("character")
}

// VHSelfClosingTrim: the documented whitespace rule of self-closing markers (as in the repository's
// own tests): after a self-closing marker that follows whitespace or starts the line, one whitespace
// character is swallowed, unless trimwhitespace=false.
func VHSelfClosingTrim() {
	lp := LineParser{}
	c := vByte("c")
	vAssume(vPlainASCII(c))
	x := string([]byte{c})
	switch vChoose("case", 3) {
	case 0:
		res, err := lp.ParseMarkup(x + " [w/] " + x)
		vAssert(err == nil && res.Text == x+" "+x && len(res.Attributes) == 1 && res.Attributes[0].Position == 2 && res.Attributes[0].Length == 0, "whitespace after a self-closing marker is swallowed")
	case 1:
		res, err := lp.ParseMarkup("[w/] " + x)
		vAssert(err == nil && res.Text == x && len(res.Attributes) == 1 && res.Attributes[0].Position == 0, "at the start of the line too")
	case 2:
		res, err := lp.ParseMarkup(x + " [w trimwhitespace=false/] " + x)
		vAssert(err == nil && res.Text == x+"  "+x && len(res.Attributes) == 1 && res.Attributes[0].Position == 2, "trimwhitespace=false keeps it")
	}
	vReach("selfclosing")
}

// VHReplacement: select / plural / ordinal / nomarkup are replaced by the text their definition prescribes;
// the replacement text may hold multi-byte characters, and a marker that follows it is still positioned
// in characters of the resulting text.
func VHReplacement() {
	lp := LineParser{}
	c := vByte("c")
	vAssume(vAnd(c >= 'a', c <= 'z'))
	x := string([]byte{c})
	ub := vByte("u")
	vAssume(vAnd(ub >= 0xa1, ub <= 0xbf))
	u := string([]byte{0xc3, ub}) // one two-byte character (U+00E1..U+00FF)
	closeByName := vChoose("closeform", 2) == 1 // self-closing, or open ... closed by name
	fin := func(name string) string {
		if closeByName {
			return "][/" + name + "]"
		}
		return "/]"
	}
	tail := "z[b]" + x + u + "[/b]."
	// optionally a second replacement marker in its open form later on the same line (the remainder of the
	// line after the first one is then what a second scan starts from)
	tailText := "z" + x + u + "."
	switch vChoose("second", 3) {
	case 1:
		tail += "[nomarkup][" + x + "] [/nomarkup]!"
		tailText += "[" + x + "] !"
		vReach("second-nomarkup")
	case 2:
		tail += "[select value=m m=\"" + u + x + "\"][/select]!"
		tailText += u + x + "!"
		vReach("second-select")
	}
	// checkTail: the text is want+tail's plain text and the attribute b encloses exactly x+u
	checkTail := func(res *ParseResult, want string, what string) {
		vAssert(res.Text == want+tailText, what)
		b, ok := res.Attribute("b")
		vAssert(ok, "the marker after a replacement marker yields its attribute")
		if ok {
			vAssert(b.Position == utf8.RuneCountInString(want)+1 && b.Length == 2, "a marker after replaced text is positioned in characters of the resulting text")
			vAssert(res.TextForAttribute(b) == x+u, "TextForAttribute after replaced text")
		}
	}
	switch vChoose("marker", 4) {
	case 0: // select
		which := vChoose("value", 2)
		val := []string{"m", "f"}[which]
		line := "k[select value=" + val + " m=\"" + x + u + "%\" f=\"F\"" + fin("select") + tail
		res, err := lp.ParseMarkup(line)
		vAssert(err == nil, "select parses")
		if err == nil {
			want := "k" + x + u + "m"
			if which == 1 {
				want = "kF"
			}
			checkTail(res, want, "select is replaced by the case named by its value, % standing for the value")
			vReach("select")
		}
	case 1: // plural
		d := vByte("d")
		vAssume(vDigit(d))
		line := "k[plural value=" + string([]byte{d}) + " one=\"%" + x + u + "\" other=\"%s\"" + fin("plural") + tail
		res, err := lp.ParseMarkup(line)
		vAssert(err == nil, "plural parses")
		if err == nil {
			want := "k" + string([]byte{d}) + "s"
			if d == '1' {
				want = "k1" + x + u
			}
			checkTail(res, want, "plural picks `one` exactly for 1")
			vReach("plural")
		}
	case 2: // ordinal
		d1, d0 := vByte("d1"), vByte("d0")
		vAssume(vAnd(vAnd(d1 >= '1', d1 <= '9'), vDigit(d0)))
		n := int(d1-'0')*10 + int(d0-'0')
		line := "k[ordinal value=" + string([]byte{d1, d0}) + " one=\"%st\" two=\"%nd\" few=\"%rd\" other=\"%" + u + "\"" + fin("ordinal") + tail
		res, err := lp.ParseMarkup(line)
		vAssert(err == nil, "ordinal parses")
		if err == nil {
			suffix := u
			switch {
			case n%10 == 1 && n != 11:
				suffix = "st"
			case n%10 == 2 && n != 12:
				suffix = "nd"
			case n%10 == 3 && n != 13:
				suffix = "rd"
			}
			checkTail(res, "k"+string([]byte{d1, d0})+suffix, "ordinal picks the English ordinal case")
			vReach("ordinal")
		}
	case 3: // nomarkup: the enclosed text is taken verbatim
		vAssume(closeByName)
		line := "k[nomarkup][" + x + u + "] \\[[/nomarkup]" + tail
		res, err := lp.ParseMarkup(line)
		vAssert(err == nil, "nomarkup closed by name parses")
		if err == nil {
			checkTail(res, "k["+x+u+"] \\[", "nomarkup keeps the enclosed text verbatim")
			vReach("nomarkup")
		}
	}
}

// VHEdgeWhitespace: the returned text is trimmed; attributes are expressed relative to the trimmed text and
// delimit the part of their enclosed text that is still there (leading whitespace shifts them, trailing
// whitespace inside a marker is cut off), whatever the combination of leading / inner / trailing whitespace.
func VHEdgeWhitespace() {
	lp := LineParser{}
	c1, c2, c3 := vByte("c1"), vByte("c2"), vByte("c3")
	vAssume(vAnd(vPlainASCII(c1), vAnd(vPlainASCII(c2), vPlainASCII(c3))))
	ub := vByte("u")
	vAssume(vAnd(ub >= 0xa1, ub <= 0xbf))
	sp := func(n int) string { return "   "[:n] }
	L, S, T := vChoose("lead", 3), vChoose("inner", 3), vChoose("trail", 3)
	x1, x2, x3 := string([]byte{c1}), string([]byte{0xc3, ub, c2}), string([]byte{c3})
	switch vChoose("shape", 4) {
	case 0: // L x1 [a] x2 S [/a] T : the marker's trailing whitespace is trimmed away
		res, err := lp.ParseMarkup(sp(L) + x1 + "[a]" + x2 + sp(S) + "[/a]" + sp(T))
		vAssert(err == nil, "edge whitespace parses (0)")
		if err == nil {
			vAssert(res.Text == x1+x2, "the text is trimmed (0)")
			a, ok := res.Attribute("a")
			vAssert(ok && a.Position == 1 && a.Length == 2, "the attribute delimits the enclosed text that remains (0)")
			vAssert(ok && res.TextForAttribute(a) == x2, "TextForAttribute returns the enclosed text that remains (0)")
		}
	case 1: // L x1 [a] x2 S [/a] x3 T : inner whitespace is kept
		res, err := lp.ParseMarkup(sp(L) + x1 + "[a]" + x2 + sp(S) + "[/a]" + x3 + sp(T))
		vAssert(err == nil, "edge whitespace parses (1)")
		if err == nil {
			vAssert(res.Text == x1+x2+sp(S)+x3, "the text is trimmed (1)")
			a, ok := res.Attribute("a")
			vAssert(ok && a.Position == 1 && a.Length == 2+S, "the attribute delimits the enclosed text (1)")
			vAssert(ok && res.TextForAttribute(a) == x2+sp(S), "TextForAttribute returns the enclosed text (1)")
		}
	case 2: // L [a] S x2 [/] T x... close-all, whitespace at the start of the enclosed text
		res, err := lp.ParseMarkup(sp(L) + "[a]" + sp(S) + x2 + "[/]" + sp(T))
		vAssert(err == nil, "edge whitespace parses (2)")
		if err == nil {
			vAssert(res.Text == x2, "the text is trimmed (2)")
			a, ok := res.Attribute("a")
			vAssert(ok && a.Position == 0 && a.Length == 2, "the attribute delimits the enclosed text that remains (2)")
			vAssert(ok && res.TextForAttribute(a) == x2, "TextForAttribute returns the enclosed text that remains (2)")
		}
	case 3: // x1 x2 S [a] T [/a] : a marker enclosing only trailing whitespace is empty and sits at the end
		vAssume(L == 0)
		res, err := lp.ParseMarkup(x1 + x2 + sp(S) + "[a]" + sp(T) + "[/a]")
		vAssert(err == nil, "edge whitespace parses (3)")
		if err == nil {
			vAssert(res.Text == x1+x2, "the text is trimmed (3)")
			a, ok := res.Attribute("a")
			vAssert(ok && a.Position+a.Length <= 3 && a.Length == 0, "an attribute enclosing only trimmed whitespace is empty and inside the text (3)")
			vAssert(ok && res.TextForAttribute(a) == "", "TextForAttribute of it is empty (3)")
		}
	}
	vReach("edge")
}
