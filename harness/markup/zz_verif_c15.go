package markup

import "unicode/utf8"

// C15: ParseMarkup is total and its results are safe to use, for every byte string of length N.

func vArbLine(name string, n int) string {
	s := vString(name, n)
	if vParam("ASCII", 1) != 0 {
		for i := 0; i < n; i++ {
			vAssume(s[i] < 0x80)
		}
	}
	return s
}

func vCheckResultSafe(res *ParseResult) {
	runes := utf8.RuneCountInString(res.Text)
	for i := range res.Attributes {
		a := res.Attributes[i]
		vAssert(a.Position >= 0 && a.Length >= 0, "attribute position and length are non-negative")
		vAssert(a.Position+a.Length <= runes, "attribute range lies inside the text (in characters)")
		panicked := vTry(func() { res.TextForAttribute(a) })
		vAssert(!panicked, "TextForAttribute never panics on a returned attribute")
		vReach("attribute")
	}
}

func VHMarkupTotal() {
	n := vParam("N", 3)
	s := vArbLine("s", n)
	var res *ParseResult
	var err error
	lp := LineParser{}
	panicked := vTry(func() { res, err = lp.ParseMarkup(s) })
	vAssert(!panicked, "ParseMarkup never panics")
	if err != nil {
		vReach("error")
		return
	}
	vReach("parsed")
	vAssert(res != nil, "a result or an error")
	vCheckResultSafe(res)
}

// vFragment: the F-th fragment of a token-level alphabet of marker pieces (symbolic letter, digit and
// non-ASCII byte so that multi-byte characters and invalid UTF-8 are included).
func vFragment(tag string, f int) string {
	switch f {
	case 0:
		return "["
	case 1:
		return "]"
	case 2:
		return "[/"
	case 3:
		return "/]"
	case 4:
		return "="
	case 5:
		return " "
	case 6:
		return "\\["
	case 7:
		return ":"
	case 8:
		return "\""
	case 9:
		c := vByte(tag + ".letter")
		vAssume(vAnd(c >= 'a', c <= 'z'))
		return string([]byte{c})
	case 10:
		c := vByte(tag + ".digit")
		vAssume(vAnd(c >= '0', c <= '9'))
		return string([]byte{c})
	case 11:
		return "\xc3\xa9" // é
	case 12:
		c := vByte(tag + ".high") // any byte >= 0x80: continuation bytes, invalid lead bytes, ...
		vAssume(c >= 0x80)
		return string([]byte{c})
	case 13:
		return "[nomarkup]"
	case 14:
		return "[/nomarkup]"
	case 15:
		return "[select value=a a="
	case 16:
		return "[a]"
	case 17:
		return "[/a]"
	case 18:
		return "[b/]"
	case 19:
		return "[/]"
	}
	return "x"
}

const vFragments = 21

// VHMarkupAssembly: lines assembled from K fragments of the alphabet above: total, and safe to use.
func VHMarkupAssembly() {
	k := vParam("K", 3)
	line := ""
	for i := 0; i < k; i++ {
		line += vFragment("frag"+vItoa(i), vChoose("frag"+vItoa(i)+".kind", vFragments))
	}
	var res *ParseResult
	var err error
	lp := LineParser{}
	panicked := vTry(func() { res, err = lp.ParseMarkup(line) })
	vAssert(!panicked, "ParseMarkup never panics (assembled line)")
	if err != nil {
		vReach("error")
		return
	}
	vReach("parsed")
	vAssert(res != nil, "a result or an error")
	vCheckResultSafe(res)
}
