package markup

import "unicode/utf8"

// C15: ParseMarkup is total and its results are safe to use, for every byte string of length N.

func vArbLine(name string, n int) string {
	s := vString(name, n)
	if vParam("ASCII", 1) != 0 {
		for i := 0; i < n; i++ {
			vAssume(s[i] < 0x80)
		}
	}
	return s
}

func vCheckResultSafe(res *ParseResult) {
	runes := utf8.RuneCountInString(res.Text)
	for i := range res.Attributes {
		a := res.Attributes[i]
		vAssert(a.Position >= 0 && a.Length >= 0, "attribute position and length are non-negative")
		vAssert(a.Position+a.Length <= runes, "attribute range lies inside the text (in characters)")
		panicked := vTry(func() { res.TextForAttribute(a) })
		vAssert(!panicked, "TextForAttribute never panics on a returned attribute")
		vReach("attribute")
	}
}

func VHMarkupTotal() {
	n := vParam("N", 3)
	s := vArbLine("s", n)
	var res *ParseResult
	var err error
	lp := LineParser{}
	panicked := vTry(func() { res, err = lp.ParseMarkup(s) })
	vAssert(!panicked, "ParseMarkup never panics")
	if err != nil {
		vReach("error")
		return
	}
	vReach("parsed")
	vAssert(res != nil, "a result or an error")
	vCheckResultSafe(res)
}
