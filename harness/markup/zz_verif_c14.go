package markup

import "strings"

// C14: parsing is a pure function of the line: a parser value in an arbitrary state and a fresh
// one give the same result on every line of N bytes.

func vValueSame(a, b Value) bool {
	return a.ValueType == b.ValueType && a.IntegerValue == b.IntegerValue && vFloatSame(a.FloatValue, b.FloatValue) &&
		a.StringValue == b.StringValue && a.BoolValue == b.BoolValue
}

func vPropsSame(a, b map[string]Value) bool {
	if len(a) != len(b) {
		return false
	}
	for k, v := range a {
		w, ok := b[k]
		if !ok || !vValueSame(v, w) {
			return false
		}
	}
	return true
}

func vAttrSame(a, b Attribute) bool {
	return a.Name == b.Name && a.Position == b.Position && a.Length == b.Length && a.SourcePosition == b.SourcePosition && vPropsSame(a.Properties, b.Properties)
}

func vResultSame(a, b *ParseResult) bool {
	if a.Text != b.Text || len(a.Attributes) != len(b.Attributes) {
		return false
	}
	for i := range a.Attributes {
		if !vAttrSame(a.Attributes[i], b.Attributes[i]) {
			return false
		}
	}
	return true
}

func VHMarkupPure() {
	n := vParam("N", 3)
	s := vArbLine("s", n)
	// an arbitrary parser state: this abstracts every history, failed parses included
	dirty := LineParser{input: vString("old.input", 2), sourcePosition: vInt("old.sourcePosition"), position: vInt("old.position")}
	switch vChoose("old.reader", 3) {
	case 1:
		dirty.reader = strings.NewReader(vString("old.rest", 2))
	case 2:
		dirty.reader = strings.NewReader(vString("old.rest", 2))
		dirty.reader.ReadRune()
	}
	fresh := LineParser{}
	r1, e1 := dirty.ParseMarkup(s)
	r2, e2 := fresh.ParseMarkup(s)
	vAssert((e1 != nil) == (e2 != nil), "a reused parser fails exactly when a fresh one does")
	if e1 != nil || e2 != nil {
		vReach("error")
		return
	}
	vReach("parsed")
	if len(r2.Attributes) > 0 {
		vReach("with-attributes")
	}
	vAssert(vResultSame(r1, r2), "a reused parser returns what a fresh parser returns")
}

// vFamilyLine: the F-th member of a family of structured lines (contents symbolic where it matters):
// plain text, markers, replacement markers in open and self-closing form, and lines that fail at
// different points of the scan (before any marker, after a marker was recorded, in a processor, in
// the attribute builder).
func vFamilyLine(tag string, f int) string {
	c := vByte(tag + ".c")
	vAssume(vAnd(c >= 'a', c <= 'z'))
	x := string([]byte{c})
	switch f {
	case 0:
		return x + " " + x
	case 1:
		return "[a]" + x + "[/a]"
	case 2:
		return "[a/] " + x + " [b" // fails after a marker has been recorded
	case 3:
		return "[nomarkup]" + x + "[/nomarkup]"
	case 4:
		return "[select value=a a=X]" + x + "[/select] t"
	case 5:
		return "[w/] [select value=z a=X/]" // fails in a processor, after a marker
	case 6:
		return x + " [b trimwhitespace=3/] y" // non-boolean trimwhitespace
	case 7:
		return x + ": fine[/a]" // unexpected close marker
	case 8:
		return "[a][b]" + x + "[/]"
	case 9:
		return "[plural value=1 one=" + x + " other=y][/plural]."
	case 10:
		return "[a=1.5 p=true/]" + x
	case 11:
		return x + " [a]" + x // parses, and leaves a marker open at the end of the line
	case 12:
		return "[a][b]" + x + "[/c]" // refused by the attribute builder while two markers are open
	case 13:
		return x + "[/]" // close-all with nothing open
	case 14:
		return "[b] " + x + "[/b] t" // the text begins with whitespace inside a marker: positions are re-based by the final trim
	}
	// arbitrary short ASCII line
	s := vString(tag+".raw", 3)
	for i := 0; i < 3; i++ {
		vAssume(s[i] < 0x80)
	}
	return s
}

const vFamilySize = 16

// VHMarkupHistory: real histories. H lines of the family are parsed on one parser value, then a line of
// the family; the result equals what a fresh parser returns for that line. (Complements VHMarkupPure,
// whose arbitrary pre-state ranges over the parser's *current* fields only.)
func VHMarkupHistory() {
	h := vParam("H", 1)
	fam := vFamilySize
	if vParam("NORAW", 0) != 0 {
		fam-- // without the arbitrary 3-byte member (longer histories)
	}
	used := LineParser{}
	var held, copies []*ParseResult
	for i := 0; i < h; i++ {
		r, err := used.ParseMarkup(vFamilyLine("hist"+vItoa(i), vChoose("hist"+vItoa(i)+".family", fam)))
		if err == nil && r != nil {
			held = append(held, r)
			copies = append(copies, vCopyResult(r))
		}
	}
	line := vFamilyLine("line", vChoose("line.family", vFamilySize))
	fresh := LineParser{}
	r1, e1 := used.ParseMarkup(line)
	r2, e2 := fresh.ParseMarkup(line)
	vAssert((e1 != nil) == (e2 != nil), "after any history a parser fails exactly when a fresh one does")
	// results handed out earlier belong to whoever holds them: later parses do not change them
	for i := range held {
		vAssert(vResultSame(held[i], copies[i]), "a result returned earlier is not changed by later parses")
		for _, a := range held[i].Attributes {
			if a.Length > 0 {
				vReach("held-attribute")
			}
			_ = held[i].TextForAttribute(a)
		}
	}
	if e1 != nil || e2 != nil {
		vReach("error")
		return
	}
	vReach("parsed")
	vAssert(vResultSame(r1, r2), "after any history a parser returns what a fresh parser returns")
}

// vCopyResult: a deep copy of a parse result.
func vCopyResult(r *ParseResult) *ParseResult {
	c := &ParseResult{Text: r.Text}
	for _, a := range r.Attributes {
		b := a
		b.Properties = map[string]Value{}
		for k, v := range a.Properties {
			b.Properties[k] = v
		}
		c.Attributes = append(c.Attributes, b)
	}
	return c
}
