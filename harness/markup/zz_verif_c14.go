package markup

import "strings"

// C14: parsing is a pure function of the line: a parser value in an arbitrary state and a fresh
// one give the same result on every line of N bytes.

func vValueSame(a, b Value) bool {
	return a.ValueType == b.ValueType && a.IntegerValue == b.IntegerValue && vFloatSame(a.FloatValue, b.FloatValue) &&
		a.StringValue == b.StringValue && a.BoolValue == b.BoolValue
}

func vPropsSame(a, b map[string]Value) bool {
	if len(a) != len(b) {
		return false
	}
	for k, v := range a {
		w, ok := b[k]
		if !ok || !vValueSame(v, w) {
			return false
		}
	}
	return true
}

func vAttrSame(a, b Attribute) bool {
	return a.Name == b.Name && a.Position == b.Position && a.Length == b.Length && a.SourcePosition == b.SourcePosition && vPropsSame(a.Properties, b.Properties)
}

func vResultSame(a, b *ParseResult) bool {
	if a.Text != b.Text || len(a.Attributes) != len(b.Attributes) {
		return false
	}
	for i := range a.Attributes {
		if !vAttrSame(a.Attributes[i], b.Attributes[i]) {
			return false
		}
	}
	return true
}

func VHMarkupPure() {
	n := vParam("N", 3)
	s := vArbLine("s", n)
	// an arbitrary parser state: this abstracts every history, failed parses included
	dirty := LineParser{input: vString("old.input", 2), sourcePosition: vInt("old.sourcePosition"), position: vInt("old.position")}
	switch vChoose("old.reader", 3) {
	case 1:
		dirty.reader = strings.NewReader(vString("old.rest", 2))
	case 2:
		dirty.reader = strings.NewReader(vString("old.rest", 2))
		dirty.reader.ReadRune()
	}
	fresh := LineParser{}
	r1, e1 := dirty.ParseMarkup(s)
	r2, e2 := fresh.ParseMarkup(s)
	vAssert((e1 != nil) == (e2 != nil), "a reused parser fails exactly when a fresh one does")
	if e1 != nil || e2 != nil {
		vReach("error")
		return
	}
	vReach("parsed")
	if len(r2.Attributes) > 0 {
		vReach("with-attributes")
	}
	vAssert(vResultSame(r1, r2), "a reused parser returns what a fresh parser returns")
}
