package tree

import (
	"strconv"

	"github.com/remieven/ysgo/variable"
)

// C17: a generic command's elements after rearrange() are exactly the words written:
// whitespace-separated (the grammar's WS: space and tab) words of the concatenated adjacent text
// chunks, true/false as booleans, decimal literals (optionally negative) as numbers, expressions
// in position, every other word a string.

func vItoa(i int) string { return strconv.Itoa(i) }

func vIsWS(c byte) bool { return c == ' ' || c == '\t' }

// vNumberShaped: -?digits(.digits)?
func vNumberShaped(s string) bool {
	i := 0
	if i < len(s) && s[i] == '-' {
		i++
	}
	d := 0
	for i < len(s) && '0' <= s[i] && s[i] <= '9' {
		i++
		d++
	}
	if d == 0 {
		return false
	}
	if i == len(s) {
		return true
	}
	if s[i] != '.' {
		return false
	}
	i++
	d = 0
	for i < len(s) && '0' <= s[i] && s[i] <= '9' {
		i++
		d++
	}
	return d > 0 && i == len(s)
}

type vWantElem struct {
	expr *Expression // non-nil: the expression element itself
	word string
}

// VHCommandArgs: ITEMS items, each a COMMAND_TEXT chunk of 1..N symbolic bytes or an expression.
func VHCommandArgs() {
	items := vParam("ITEMS", 2)
	n := vParam("N", 3)
	cs := &CommandStatement{}
	var want []vWantElem
	acc := []byte{}
	flush := func() {
		// words of the accumulated text
		i := 0
		for i < len(acc) {
			for i < len(acc) && vIsWS(acc[i]) {
				i++
			}
			j := i
			for j < len(acc) && !vIsWS(acc[j]) {
				j++
			}
			if j > i {
				want = append(want, vWantElem{word: string(acc[i:j])})
			}
			i = j
		}
		acc = acc[:0]
	}
	prevWasText := false
	for k := 0; k < items; k++ {
		isText := vChoose("item"+vItoa(k)+".kind", 2) == 0
		if isText && prevWasText {
			vAssume(false) // the lexer never delivers two adjacent COMMAND_TEXT tokens
		}
		if isText && vParam("WORDS", 0) > 0 {
			// word-level chunks (longer commands than the byte-level bound reaches): 1..WORDS words of one symbolic
			// character each, single spaces or tabs between them, optional whitespace at either end
			tag := "item" + vItoa(k)
			nw := 1 + vChoose(tag+".nwords", vParam("WORDS", 0))
			var b []byte
			sep := func(name string) byte {
				if vChoose(name, 2) == 1 {
					return '\t'
				}
				return ' '
			}
			if vChoose(tag+".leadws", 2) == 1 {
				b = append(b, ' ')
			}
			for w := 0; w < nw; w++ {
				if w > 0 {
					b = append(b, sep(tag+".sep"+vItoa(w)))
				}
				c := vByte(tag + ".w" + vItoa(w))
				vAssume(vAnd(c >= 'a', c <= 'z')) // one letter: never a number or a boolean (those are the byte-level instances' business)
				b = append(b, c)
			}
			if vChoose(tag+".trailws", 2) == 1 {
				b = append(b, ' ')
			}
			cs.Elements = append(cs.Elements, &CommandStatementElement{text: string(b)})
			acc = append(acc, b...)
			vReach("word-chunk")
		} else if isText {
			l := 1 + vChoose("item"+vItoa(k)+".len", n)
			s := vString("item"+vItoa(k)+".text", l)
			for i := 0; i < l; i++ {
				c := s[i]
				vAssume(vAnd(vAnd(c != '>', c != '{'), vAnd(c != '\r', c != '\n')))
				// the oracle takes no side on Unicode whitespace other than the grammar's (space, tab): vertical tab,
				// form feed and the lead bytes of the multi-byte space characters (U+0085, U+00A0, U+1680, U+2000.., U+3000)
				// are kept out of the alphabet, so that splitting on unicode.IsSpace and on [ \t] agree
				vAssume(vAnd(vAnd(c != '\v', c != '\f'), vAnd(vAnd(c != 0xc2, c != 0xe1), vAnd(c != 0xe2, c != 0xe3))))
			}
			cs.Elements = append(cs.Elements, &CommandStatementElement{text: s})
			acc = append(acc, s...)
		} else {
			flush()
			e := &Expression{Value: variable.NewNumber(float64(k))}
			cs.Elements = append(cs.Elements, &CommandStatementElement{Expression: e})
			want = append(want, vWantElem{expr: e})
		}
		prevWasText = isText
	}
	flush()
	cs.rearrange()
	vReach("rearranged")
	vAssert(len(cs.Elements) == len(want), "one element per word and per expression")
	if len(cs.Elements) != len(want) {
		return
	}
	for i, w := range want {
		el := cs.Elements[i]
		if w.expr != nil {
			vAssert(el.Expression == w.expr, "expressions keep their position among the words")
			vReach("expression")
			continue
		}
		vAssert(el.Expression != nil && el.Expression.Value != nil, "a word becomes a value")
		v := el.Expression.Value
		switch {
		case w.word == "true" || w.word == "false":
			vAssert(v.Boolean != nil && v.Number == nil && v.String == nil && *v.Boolean == (w.word == "true"), "true/false arrive as booleans")
			vReach("boolean")
		case vNumberShaped(w.word):
			f, err := strconv.ParseFloat(w.word, 64)
			vAssert(err == nil && v.Number != nil && v.Boolean == nil && v.String == nil && vFloatSame(*v.Number, f), "decimal literals arrive as numbers")
			vReach("number")
		default:
			vAssert(v.String != nil && v.Number == nil && v.Boolean == nil && *v.String == w.word, "every other word arrives as a string, verbatim")
			vReach("string")
		}
	}
}
