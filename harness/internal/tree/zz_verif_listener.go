package tree

import (
	"github.com/antlr4-go/antlr/v4"

	"github.com/remieven/ysgo/internal/parser"
	"github.com/remieven/ysgo/variable"
)

// C01 / C02 / C04 / C17, listener side: the real parserListener driven by the events ANTLR's
// ParseTreeWalker produces for a synthesised parse tree. The harness builds the parse tree (real
// generated context classes, real terminal nodes and tokens) and, in parallel, the syntax tree it
// denotes; after the real walk the two must be equal and every callback stack back at its entry depth.
// Which parse tree a *text* produces is decided by the ANTLR parser and is outside the claim.

// ---- parse-tree construction ----

type vBuilder struct {
	pair *antlr.TokenSourceCharStreamPair
	ctr  int
}

func vNewBuilder() *vBuilder {
	base := antlr.NewBaseLexer(antlr.NewInputStream("x"))
	base.Interpreter = antlr.NewLexerATNSimulator(base, nil, nil, nil)
	return &vBuilder{pair: base.GetTokenSourceCharStreamPair()}
}

func (b *vBuilder) tok(tokenType int, text string) antlr.Token {
	t := antlr.NewCommonToken(b.pair, tokenType, antlr.TokenDefaultChannel, 0, 0)
	t.SetText(text)
	return t
}

func (b *vBuilder) term(ctx antlr.ParserRuleContext, tokenType int, text string) antlr.Token {
	t := b.tok(tokenType, text)
	ctx.AddTokenNode(t)
	return t
}

func (b *vBuilder) fresh(prefix string) string {
	b.ctr++
	return prefix + vItoa(b.ctr)
}

// operator token types and the operator each denotes, written down independently of expression.go
var vBinaryTokens = []int{
	parser.YarnSpinnerLexerOPERATOR_MATHS_MULTIPLICATION, parser.YarnSpinnerLexerOPERATOR_MATHS_DIVISION, parser.YarnSpinnerLexerOPERATOR_MATHS_MODULUS,
	parser.YarnSpinnerLexerOPERATOR_MATHS_ADDITION, parser.YarnSpinnerLexerOPERATOR_MATHS_SUBTRACTION,
	parser.YarnSpinnerLexerOPERATOR_LOGICAL_LESS_THAN_EQUALS, parser.YarnSpinnerLexerOPERATOR_LOGICAL_GREATER_THAN_EQUALS,
	parser.YarnSpinnerLexerOPERATOR_LOGICAL_LESS, parser.YarnSpinnerLexerOPERATOR_LOGICAL_GREATER,
	parser.YarnSpinnerLexerOPERATOR_LOGICAL_EQUALS, parser.YarnSpinnerLexerOPERATOR_LOGICAL_NOT_EQUALS,
	parser.YarnSpinnerLexerOPERATOR_LOGICAL_AND, parser.YarnSpinnerLexerOPERATOR_LOGICAL_OR, parser.YarnSpinnerLexerOPERATOR_LOGICAL_XOR,
}
var vBinaryOps = []int{
	MultiplicationBinaryOperator, DivisionBinaryOperator, ModuloBinaryOperator,
	AdditionBinaryOperator, SubtractionBinaryOperator,
	LessThanEqualsBinaryOperator, GreaterThanEqualsBinaryOperator, LessBinaryOperator, GreaterBinaryOperator,
	EqualsBinaryOperator, NotEqualsBinaryOperator, AndBinaryOperator, OrBinaryOperator, XorBinaryOperator,
}

// family of the parse-tree class an operator belongs to: 0 * / %, 1 + -, 2 comparisons, 3 equality, 4 and/or/xor
var vBinaryFamily = []int{0, 0, 0, 1, 1, 2, 2, 2, 2, 3, 3, 4, 4, 4}

var vInplaceTokens = []int{
	parser.YarnSpinnerLexerOPERATOR_ASSIGNMENT, parser.YarnSpinnerLexerOPERATOR_MATHS_MULTIPLICATION_EQUALS, parser.YarnSpinnerLexerOPERATOR_MATHS_DIVISION_EQUALS,
	parser.YarnSpinnerLexerOPERATOR_MATHS_MODULUS_EQUALS, parser.YarnSpinnerLexerOPERATOR_MATHS_ADDITION_EQUALS, parser.YarnSpinnerLexerOPERATOR_MATHS_SUBTRACTION_EQUALS,
}
var vInplaceOps = []int{
	AssignmentInPlaceOperator, MultiplicationInPlaceOperator, DivisionInPlaceOperator, ModuloInPlaceOperator, AdditionInPlaceOperator, SubtractionInPlaceOperator,
}

// expression builds a parse tree for an expression of symbolic shape and the *Expression it denotes.
func (b *vBuilder) expression(tag string, depth int) (parser.IExpressionContext, *Expression) {
	nk := 10
	if depth <= 0 {
		nk = 5
		if vParam("LEAN", 0) != 0 {
			nk = 1 // deep trees: number leaves only (they are distinct, so operand order and nesting stay visible)
		}
	}
	empty := parser.NewEmptyExpressionContext()
	kind := 0 // below depth 0: number literals only (arguments of leaf-level calls)
	if depth >= 0 {
		kind = vChoose(tag+".kind", nk)
	}
	switch kind {
	case 0: // number literal (distinct, so that swapped operands are visible)
		n := float64(b.ctr + 1)
		text := vItoa(b.ctr + 1)
		b.ctr++
		ec := parser.NewExpValueContext(nil, empty)
		vc := parser.NewValueNumberContext(nil, parser.NewEmptyValueContext())
		b.term(vc, parser.YarnSpinnerParserNUMBER, text)
		ec.AddChild(vc)
		return ec, &Expression{Value: variable.NewNumber(n)}
	case 1: // true / false
		ec := parser.NewExpValueContext(nil, empty)
		if vChoose(tag+".bool", 2) == 1 {
			vc := parser.NewValueTrueContext(nil, parser.NewEmptyValueContext())
			b.term(vc, parser.YarnSpinnerParserKEYWORD_TRUE, "true")
			ec.AddChild(vc)
			return ec, &Expression{Value: variable.NewBoolean(true)}
		}
		vc := parser.NewValueFalseContext(nil, parser.NewEmptyValueContext())
		b.term(vc, parser.YarnSpinnerParserKEYWORD_FALSE, "false")
		ec.AddChild(vc)
		return ec, &Expression{Value: variable.NewBoolean(false)}
	case 2: // string
		s := b.fresh("s")
		ec := parser.NewExpValueContext(nil, empty)
		vc := parser.NewValueStringContext(nil, parser.NewEmptyValueContext())
		b.term(vc, parser.YarnSpinnerParserSTRING, "\""+s+"\"")
		ec.AddChild(vc)
		return ec, &Expression{Value: variable.NewString(s)}
	case 3: // variable
		name := b.fresh("v")
		ec := parser.NewExpValueContext(nil, empty)
		vc := parser.NewValueVarContext(nil, parser.NewEmptyValueContext())
		vv := parser.NewEmptyVariableContext()
		b.term(vv, parser.YarnSpinnerParserVAR_ID, "$"+name)
		vc.AddChild(vv)
		ec.AddChild(vc)
		return ec, &Expression{VariableID: &name}
	case 4: // function call with 0..2 arguments
		name := b.fresh("f")
		ec := parser.NewExpValueContext(nil, empty)
		vc := parser.NewValueFuncContext(nil, parser.NewEmptyValueContext())
		fc, call := b.functionCall(tag, name, depth-1)
		vc.AddChild(fc)
		ec.AddChild(vc)
		return ec, &Expression{FunctionCall: call}
	case 5: // - e
		ec := parser.NewExpNegativeContext(nil, empty)
		ec.SetOp(b.term(ec, parser.YarnSpinnerParserOPERATOR_MATHS_SUBTRACTION, "-"))
		sub, e := b.expression(tag+".n", depth-1)
		ec.AddChild(sub)
		return ec, &Expression{NegativeExpression: e}
	case 6: // not e
		ec := parser.NewExpNotContext(nil, empty)
		ec.SetOp(b.term(ec, parser.YarnSpinnerParserOPERATOR_LOGICAL_NOT, "not"))
		sub, e := b.expression(tag+".t", depth-1)
		ec.AddChild(sub)
		return ec, &Expression{NotExpression: e}
	case 7: // ( e ): transparent
		ec := parser.NewExpParensContext(nil, empty)
		b.term(ec, parser.YarnSpinnerParserLPAREN, "(")
		sub, e := b.expression(tag+".p", depth-1)
		ec.AddChild(sub)
		b.term(ec, parser.YarnSpinnerParserRPAREN, ")")
		return ec, e
	default: // e op e, operator = any of the fourteen operator tokens
		k := vChoose(tag+".op", len(vBinaryTokens))
		if vParam("LEAN", 0) != 0 {
			// deep trees: one operator token per grammar family (the five context classes)
			seen := map[int]bool{}
			var reps []int
			for i := range vBinaryTokens {
				if !seen[vBinaryFamily[i]] {
					seen[vBinaryFamily[i]] = true
					reps = append(reps, i)
				}
			}
			vAssume(k < len(reps))
			k = reps[k]
		}
		// SKEW (for deep trees): 1 = only the left operand is deep, 2 = only the right one
		ld, rd := depth-1, depth-1
		switch vParam("SKEW", 0) {
		case 1:
			rd = 0
		case 2:
			ld = 0
		}
		l, le := b.expression(tag+".l", ld)
		r, re := b.expression(tag+".r", rd)
		opTok := b.tok(vBinaryTokens[k], "op")
		var ec interface {
			parser.IExpressionContext
			antlr.ParserRuleContext
		}
		switch vBinaryFamily[k] {
		case 0:
			c := parser.NewExpMultDivModContext(nil, empty)
			c.SetOp(opTok)
			ec = c
		case 1:
			c := parser.NewExpAddSubContext(nil, empty)
			c.SetOp(opTok)
			ec = c
		case 2:
			c := parser.NewExpComparisonContext(nil, empty)
			c.SetOp(opTok)
			ec = c
		case 3:
			c := parser.NewExpEqualityContext(nil, empty)
			c.SetOp(opTok)
			ec = c
		default:
			c := parser.NewExpAndOrXorContext(nil, empty)
			c.SetOp(opTok)
			ec = c
		}
		ec.AddChild(l)
		ec.AddTokenNode(opTok)
		ec.AddChild(r)
		op := vBinaryOps[k]
		return ec, &Expression{Operator: &op, LeftOperand: le, RightOperand: re}
	}
}

func (b *vBuilder) functionCall(tag, name string, depth int) (*parser.Function_callContext, *FunctionCall) {
	fc := parser.NewEmptyFunction_callContext()
	b.term(fc, parser.YarnSpinnerParserFUNC_ID, name)
	b.term(fc, parser.YarnSpinnerParserLPAREN, "(")
	call := &FunctionCall{FunctionID: name}
	n := vChoose(tag+".nargs", 3)
	for i := 0; i < n; i++ {
		if i > 0 {
			b.term(fc, parser.YarnSpinnerParserCOMMA, ",")
		}
		a, ae := b.expression(tag+".a"+vItoa(i), depth)
		fc.AddChild(a)
		call.Arguments = append(call.Arguments, ae)
	}
	b.term(fc, parser.YarnSpinnerParserRPAREN, ")")
	return fc, call
}

// ---- comparison of syntax trees ----

func vValueSame(a, b *variable.Value) bool {
	if a == nil || b == nil {
		return a == nil && b == nil
	}
	if (a.Number == nil) != (b.Number == nil) || (a.Boolean == nil) != (b.Boolean == nil) || (a.String == nil) != (b.String == nil) {
		return false
	}
	if a.Number != nil && *a.Number != *b.Number {
		return false
	}
	if a.Boolean != nil && *a.Boolean != *b.Boolean {
		return false
	}
	if a.String != nil && *a.String != *b.String {
		return false
	}
	return true
}

func vExprSame(a, b *Expression) bool {
	if a == nil || b == nil {
		return a == nil && b == nil
	}
	if !vValueSame(a.Value, b.Value) {
		return false
	}
	if (a.VariableID == nil) != (b.VariableID == nil) || (a.VariableID != nil && *a.VariableID != *b.VariableID) {
		return false
	}
	if (a.Operator == nil) != (b.Operator == nil) || (a.Operator != nil && *a.Operator != *b.Operator) {
		return false
	}
	if (a.FunctionCall == nil) != (b.FunctionCall == nil) {
		return false
	}
	if a.FunctionCall != nil {
		if a.FunctionCall.FunctionID != b.FunctionCall.FunctionID || len(a.FunctionCall.Arguments) != len(b.FunctionCall.Arguments) {
			return false
		}
		for i := range a.FunctionCall.Arguments {
			if !vExprSame(a.FunctionCall.Arguments[i], b.FunctionCall.Arguments[i]) {
				return false
			}
		}
	}
	return vExprSame(a.NegativeExpression, b.NegativeExpression) && vExprSame(a.NotExpression, b.NotExpression) &&
		vExprSame(a.LeftOperand, b.LeftOperand) && vExprSame(a.RightOperand, b.RightOperand)
}

// vNewListener: a listener in the state it is in inside a node body.
func vNewListener() *parserListener {
	pl := &parserListener{}
	pl.EnterDialogue(nil)
	return pl
}

// VHExpressionListener (C02): every expression parse tree of depth <= DEPTH.
func VHExpressionListener() {
	b := vNewBuilder()
	pl := vNewListener()
	var got *Expression
	calls := 0
	pl.expressionCallbacks.Push(func(e *Expression) {
		got = e
		calls++
	})
	ctx, want := b.expression("e", vParam("DEPTH", 2))
	antlr.NewParseTreeWalker().Walk(pl, ctx)
	vAssert(calls == 1, "the enclosing construct receives exactly one expression")
	vAssert(vExprSame(got, want), "the expression built is the one the parse tree denotes (operator, operand order, nesting)")
	vAssert(pl.expressionCallbacks.Size() == 1, "the expression callback stack is back at its entry depth")
	vAssert(pl.functionCallCallback == nil, "no function-call callback is left behind")
	vReach("expression")
	if want.Operator != nil {
		vReach("binary")
	}
}

// ---- statements ----

const vPunct = parser.YarnSpinnerParserNEWLINE // any token type the listener does not look at

func (b *vBuilder) numberValue(n int) (*parser.ValueNumberContext, *Expression) {
	vc := parser.NewValueNumberContext(nil, parser.NewEmptyValueContext())
	b.term(vc, parser.YarnSpinnerParserNUMBER, vItoa(n))
	return vc, &Expression{Value: variable.NewNumber(float64(n))}
}

func (b *vBuilder) simpleExpression() (parser.IExpressionContext, *Expression) {
	b.ctr++
	ec := parser.NewExpValueContext(nil, parser.NewEmptyExpressionContext())
	vc, e := b.numberValue(b.ctr)
	ec.AddChild(vc)
	return ec, e
}

func (b *vBuilder) variable(name string) *parser.VariableContext {
	vv := parser.NewEmptyVariableContext()
	b.term(vv, parser.YarnSpinnerParserVAR_ID, "$"+name)
	return vv
}

// lineStatement: 1..2 text elements (a TEXT run of one or two tokens, or an inline expression), an optional
// condition, 0..2 hashtags.
func (b *vBuilder) lineStatement(tag string, rich bool) (*parser.Line_statementContext, *LineStatement) {
	lc := parser.NewEmptyLine_statementContext()
	ft := parser.NewEmptyLine_formatted_textContext()
	ls := &LineStatement{Text: &LineFormattedText{}}
	if !rich { // nested bodies: one text element, no condition, no tags (the rich shapes are explored at the top level)
		t1 := b.fresh("t")
		b.term(ft, parser.YarnSpinnerParserTEXT, t1)
		ls.Text.Elements = append(ls.Text.Elements, &LineFormattedTextElement{Text: t1})
		lc.AddChild(ft)
		b.term(lc, vPunct, "\n")
		return lc, ls
	}
	n := 1 + vChoose(tag+".nelems", 2)
	prevText := false
	for i := 0; i < n; i++ {
		if vChoose(tag+".e"+vItoa(i)+".kind", 2) == 0 {
			t1 := b.fresh("t")
			b.term(ft, parser.YarnSpinnerParserTEXT, t1)
			text := t1
			if vChoose(tag+".e"+vItoa(i)+".two", 2) == 1 { // the lexer may split a run of text into several tokens
				t2 := b.fresh("u")
				b.term(ft, parser.YarnSpinnerParserTEXT, t2)
				text += t2
			}
			if prevText {
				last := ls.Text.Elements[len(ls.Text.Elements)-1]
				last.Text += text
			} else {
				ls.Text.Elements = append(ls.Text.Elements, &LineFormattedTextElement{Text: text})
			}
			prevText = true
		} else {
			b.term(ft, vPunct, "{")
			ec, e := b.simpleExpression()
			ft.AddChild(ec)
			b.term(ft, vPunct, "}")
			ls.Text.Elements = append(ls.Text.Elements, &LineFormattedTextElement{Expression: e})
			prevText = false
		}
	}
	lc.AddChild(ft)
	if vChoose(tag+".cond", 2) == 1 {
		cc := parser.NewEmptyLine_conditionContext()
		b.term(cc, vPunct, "<<if")
		ec, e := b.simpleExpression()
		cc.AddChild(ec)
		b.term(cc, vPunct, ">>")
		lc.AddChild(cc)
		ls.Condition = e
	}
	nt := vChoose(tag+".ntags", 3)
	for i := 0; i < nt; i++ {
		hc := parser.NewEmptyHashtagContext()
		b.term(hc, vPunct, "#")
		name := b.fresh("tag")
		hc.SetText(b.term(hc, vPunct, name))
		lc.AddChild(hc)
		ls.Tags = append(ls.Tags, name)
	}
	b.term(lc, vPunct, "\n")
	return lc, ls
}

func (b *vBuilder) body(tag string, depth int, parent antlr.ParserRuleContext, maxLen int, rich bool) []*Statement {
	var out []*Statement
	n := vChoose(tag+".len", maxLen+1)
	for i := 0; i < n; i++ {
		sc, st := b.statement(tag+".s"+vItoa(i), depth, rich && i == 0)
		parent.AddChild(sc)
		out = append(out, st)
	}
	return out
}

// statement: a statement of symbolic kind; depth bounds the nesting of option groups and ifs.
func (b *vBuilder) statement(tag string, depth int, rich bool) (*parser.StatementContext, *Statement) {
	sc := parser.NewEmptyStatementContext()
	nk := 9
	if depth <= 0 {
		nk = 7
	}
	kind := vChoose(tag+".kind", nk)
	if vParam("IFONLY", 0) != 0 {
		vAssume(kind == 0 || kind >= 8) // deep trees: lines and if chains only (chains nested in the clauses of chains)
	}
	switch kind {
	case 0:
		lc, ls := b.lineStatement(tag, rich)
		sc.AddChild(lc)
		return sc, &Statement{LineStatement: ls}
	case 1: // set
		k := 0
		if rich {
			k = vChoose(tag+".op", len(vInplaceTokens))
		}
		c := parser.NewEmptySet_statementContext()
		b.term(c, vPunct, "<<set")
		name := b.fresh("v")
		c.AddChild(b.variable(name))
		opTok := b.tok(vInplaceTokens[k], "op")
		c.SetOp(opTok)
		c.AddTokenNode(opTok)
		var ec parser.IExpressionContext
		var e *Expression
		if rich {
			ec, e = b.expression(tag+".rhs", vParam("EXPRDEPTH", 0))
		} else {
			ec, e = b.simpleExpression()
		}
		c.AddChild(ec)
		b.term(c, vPunct, ">>")
		sc.AddChild(c)
		return sc, &Statement{SetStatement: &SetStatement{VariableID: name, InPlaceOperator: vInplaceOps[k], Expression: e}}
	case 2: // declare
		c := parser.NewEmptyDeclare_statementContext()
		b.term(c, vPunct, "<<declare")
		name := b.fresh("d")
		c.AddChild(b.variable(name))
		b.term(c, vPunct, "=")
		b.ctr++
		vc, e := b.numberValue(b.ctr)
		c.AddChild(vc)
		b.term(c, vPunct, ">>")
		sc.AddChild(c)
		return sc, &Statement{DeclareStatement: &DeclareStatement{VariableID: name, Value: e}}
	case 3: // jump by name
		c := parser.NewJumpToNodeNameContext(nil, parser.NewEmptyJump_statementContext())
		b.term(c, vPunct, "<<jump")
		dest := b.fresh("node")
		c.SetDestination(b.term(c, parser.YarnSpinnerParserID, dest))
		b.term(c, vPunct, ">>")
		sc.AddChild(c)
		return sc, &Statement{JumpStatement: &JumpStatement{Expression: &Expression{Value: variable.NewString(dest)}}}
	case 4: // jump by expression
		c := parser.NewJumpToExpressionContext(nil, parser.NewEmptyJump_statementContext())
		b.term(c, vPunct, "<<jump{")
		ec, e := b.simpleExpression()
		c.AddChild(ec)
		b.term(c, vPunct, "}>>")
		sc.AddChild(c)
		return sc, &Statement{JumpStatement: &JumpStatement{Expression: e}}
	case 5: // command: text, optionally an expression, optionally more text
		c := parser.NewEmptyCommand_statementContext()
		b.term(c, vPunct, "<<")
		ft := parser.NewEmptyCommand_formatted_textContext()
		name := b.fresh("cmd")
		cs := &CommandStatement{}
		b.term(ft, parser.YarnSpinnerParserCOMMAND_TEXT, name+" 12 ")
		cs.Elements = append(cs.Elements, &CommandStatementElement{Expression: &Expression{Value: variable.NewString(name)}},
			&CommandStatementElement{Expression: &Expression{Value: variable.NewNumber(12)}})
		if rich && vChoose(tag+".cmdexpr", 2) == 1 {
			b.term(ft, vPunct, "{")
			ec, e := b.simpleExpression()
			ft.AddChild(ec)
			b.term(ft, vPunct, "}")
			cs.Elements = append(cs.Elements, &CommandStatementElement{Expression: e})
			if vChoose(tag+".cmdtail", 2) == 1 {
				b.term(ft, parser.YarnSpinnerParserCOMMAND_TEXT, " true tail")
				cs.Elements = append(cs.Elements, &CommandStatementElement{Expression: &Expression{Value: variable.NewBoolean(true)}},
					&CommandStatementElement{Expression: &Expression{Value: variable.NewString("tail")}})
			}
		}
		c.AddChild(ft)
		b.term(c, vPunct, ">>")
		sc.AddChild(c)
		return sc, &Statement{CommandStatement: cs}
	case 6: // call
		c := parser.NewEmptyCall_statementContext()
		b.term(c, vPunct, "<<call")
		name := b.fresh("fn")
		cd := -1
		if rich {
			cd = 0
		}
		fc, call := b.functionCall(tag+".call", name, cd)
		c.AddChild(fc)
		b.term(c, vPunct, ">>")
		sc.AddChild(c)
		return sc, &Statement{CallStatement: &CallStatement{FunctionCall: call}}
	case 7: // option group
		gc := parser.NewEmptyShortcut_option_statementContext()
		g := &ShortcutOptionStatement{}
		n := 1 + vChoose(tag+".nopts", vParam("OPTS", 2))
		for i := 0; i < n; i++ {
			oc := parser.NewEmptyShortcut_optionContext()
			b.term(oc, vPunct, "->")
			lc, ls := b.lineStatement(tag+".o"+vItoa(i), false)
			if vChoose(tag+".o"+vItoa(i)+".cond", 2) == 1 { // an option with a condition
				cc := parser.NewEmptyLine_conditionContext()
				b.term(cc, vPunct, "<<if")
				ec, e := b.simpleExpression()
				cc.AddChild(ec)
				b.term(cc, vPunct, ">>")
				lc.AddChild(cc)
				ls.Condition = e
			}
			oc.AddChild(lc)
			o := &ShortcutOption{LineStatement: ls}
			b.term(oc, vPunct, "INDENT")
			o.Statements = b.body(tag+".o"+vItoa(i)+".body", depth-1, oc, vParam("BODY", 1), false)
			b.term(oc, vPunct, "DEDENT")
			gc.AddChild(oc)
			g.Options = append(g.Options, o)
		}
		sc.AddChild(gc)
		return sc, &Statement{ShortcutOptionStatement: g}
	default: // if / elseif* / else?
		ic := parser.NewEmptyIf_statementContext()
		is := &IfStatement{}
		{
			cc := parser.NewEmptyIf_clauseContext()
			b.term(cc, vPunct, "<<if")
			ec, e := b.simpleExpression()
			cc.AddChild(ec)
			b.term(cc, vPunct, ">>")
			cl := &Clause{Condition: e}
			cl.Statements = b.body(tag+".if.body", depth-1, cc, vParam("BODY", 1), false)
			ic.AddChild(cc)
			is.Clauses = append(is.Clauses, cl)
		}
		ne := vChoose(tag+".nelseif", vParam("ELSEIF", 1)+1)
		for i := 0; i < ne; i++ {
			cc := parser.NewEmptyElse_if_clauseContext()
			b.term(cc, vPunct, "<<elseif")
			ec, e := b.simpleExpression()
			cc.AddChild(ec)
			b.term(cc, vPunct, ">>")
			cl := &Clause{Condition: e}
			cl.Statements = b.body(tag+".elseif"+vItoa(i)+".body", depth-1, cc, vParam("BODY", 1), false)
			ic.AddChild(cc)
			is.Clauses = append(is.Clauses, cl)
		}
		if vParam("ELSE", 1) != 0 && vChoose(tag+".else", 2) == 1 {
			cc := parser.NewEmptyElse_clauseContext()
			b.term(cc, vPunct, "<<else>>")
			cl := &Clause{Condition: &Expression{Value: variable.NewBoolean(true)}}
			cl.Statements = b.body(tag+".else.body", depth-1, cc, vParam("BODY", 1), false)
			ic.AddChild(cc)
			is.Clauses = append(is.Clauses, cl)
		}
		b.term(ic, vPunct, "<<endif>>")
		sc.AddChild(ic)
		return sc, &Statement{IfStatement: is}
	}
}

// ---- comparison of statements ----

func vLineSame(a, b *LineStatement) bool {
	if a == nil || b == nil {
		return a == nil && b == nil
	}
	if (a.Text == nil) != (b.Text == nil) || !vExprSame(a.Condition, b.Condition) || len(a.Tags) != len(b.Tags) {
		return false
	}
	for i := range a.Tags {
		if a.Tags[i] != b.Tags[i] {
			return false
		}
	}
	if a.Text != nil {
		if len(a.Text.Elements) != len(b.Text.Elements) {
			return false
		}
		for i := range a.Text.Elements {
			x, y := a.Text.Elements[i], b.Text.Elements[i]
			if x.Text != y.Text || !vExprSame(x.Expression, y.Expression) {
				return false
			}
		}
	}
	return true
}

func vStmtsSame(a, b []*Statement) bool {
	if len(a) != len(b) {
		return false
	}
	for i := range a {
		if !vStmtSame(a[i], b[i]) {
			return false
		}
	}
	return true
}

func vStmtSame(a, b *Statement) bool {
	if a == nil || b == nil {
		return a == nil && b == nil
	}
	if !vLineSame(a.LineStatement, b.LineStatement) {
		return false
	}
	if (a.ShortcutOptionStatement == nil) != (b.ShortcutOptionStatement == nil) || (a.SetStatement == nil) != (b.SetStatement == nil) ||
		(a.JumpStatement == nil) != (b.JumpStatement == nil) || (a.IfStatement == nil) != (b.IfStatement == nil) ||
		(a.CommandStatement == nil) != (b.CommandStatement == nil) || (a.CallStatement == nil) != (b.CallStatement == nil) ||
		(a.DeclareStatement == nil) != (b.DeclareStatement == nil) {
		return false
	}
	if a.ShortcutOptionStatement != nil {
		x, y := a.ShortcutOptionStatement.Options, b.ShortcutOptionStatement.Options
		if len(x) != len(y) {
			return false
		}
		for i := range x {
			if !vLineSame(x[i].LineStatement, y[i].LineStatement) || !vStmtsSame(x[i].Statements, y[i].Statements) {
				return false
			}
		}
	}
	if a.SetStatement != nil {
		x, y := a.SetStatement, b.SetStatement
		if x.VariableID != y.VariableID || x.InPlaceOperator != y.InPlaceOperator || !vExprSame(x.Expression, y.Expression) {
			return false
		}
	}
	if a.JumpStatement != nil && !vExprSame(a.JumpStatement.Expression, b.JumpStatement.Expression) {
		return false
	}
	if a.IfStatement != nil {
		x, y := a.IfStatement.Clauses, b.IfStatement.Clauses
		if len(x) != len(y) {
			return false
		}
		for i := range x {
			if !vExprSame(x[i].Condition, y[i].Condition) || !vStmtsSame(x[i].Statements, y[i].Statements) {
				return false
			}
		}
	}
	if a.CommandStatement != nil {
		x, y := a.CommandStatement.Elements, b.CommandStatement.Elements
		if len(x) != len(y) {
			return false
		}
		for i := range x {
			if !vExprSame(x[i].Expression, y[i].Expression) {
				return false
			}
		}
	}
	if a.CallStatement != nil {
		x, y := a.CallStatement.FunctionCall, b.CallStatement.FunctionCall
		if x.FunctionID != y.FunctionID || len(x.Arguments) != len(y.Arguments) {
			return false
		}
		for i := range x.Arguments {
			if !vExprSame(x.Arguments[i], y.Arguments[i]) {
				return false
			}
		}
	}
	if a.DeclareStatement != nil {
		if a.DeclareStatement.VariableID != b.DeclareStatement.VariableID || !vExprSame(a.DeclareStatement.Value, b.DeclareStatement.Value) {
			return false
		}
	}
	return true
}

// VHStatementListener (C01, C04, C17): a dialogue of 1..2 nodes whose bodies hold statements of every kind,
// option groups and ifs nested to DEPTH.
func VHStatementListener() {
	b := vNewBuilder()
	dc := parser.NewEmptyDialogueContext()
	want := &Dialogue{}
	nNodes := 1 + vChoose("nodes", vParam("NODES", 1))
	for i := 0; i < nNodes; i++ {
		nc := parser.NewEmptyNodeContext()
		title := "n" + vItoa(i)
		hc := parser.NewEmptyHeaderContext()
		hc.SetHeader_key(b.term(hc, parser.YarnSpinnerParserID, "title"))
		b.term(hc, vPunct, ":")
		hc.SetHeader_value(b.term(hc, parser.YarnSpinnerParserREST_OF_LINE, title))
		nc.AddChild(hc)
		headers := map[string]string{"title": title}
		if vChoose("node"+vItoa(i)+".tracking", 2) == 1 {
			h2 := parser.NewEmptyHeaderContext()
			h2.SetHeader_key(b.term(h2, parser.YarnSpinnerParserID, "tracking"))
			b.term(h2, vPunct, ":")
			h2.SetHeader_value(b.term(h2, parser.YarnSpinnerParserREST_OF_LINE, "never"))
			nc.AddChild(h2)
			headers["tracking"] = "never"
		}
		b.term(nc, vPunct, "---")
		bc := parser.NewEmptyBodyContext()
		stmts := b.body("node"+vItoa(i), vParam("DEPTH", 1), bc, vParam("NODELEN", 2), i == 0)
		nc.AddChild(bc)
		b.term(nc, vPunct, "===")
		dc.AddChild(nc)
		want.Nodes = append(want.Nodes, Node{Headers: headers, Statements: stmts})
	}
	pl := &parserListener{}
	antlr.NewParseTreeWalker().Walk(pl, dc)
	got := pl.dialogue
	vAssert(got != nil && len(got.Nodes) == len(want.Nodes), "one node per node of the parse tree, in order")
	if got == nil || len(got.Nodes) != len(want.Nodes) {
		return
	}
	for i := range want.Nodes {
		g, w := got.Nodes[i], want.Nodes[i]
		vAssert(len(g.Headers) == len(w.Headers) && g.Headers["title"] == w.Headers["title"] && g.Headers["tracking"] == w.Headers["tracking"], "headers")
		vAssert(vStmtsSame(g.Statements, w.Statements), "the statements built nest exactly as the parse tree (document order, option and clause bodies)")
	}
	// (what the callback stacks hold afterwards is a mechanism, not asserted: a callback left behind shows in the
	// statements of the next node -- NODES=2 -- and a harness that names the stacks breaks on every restructuring)
	vReach("dialogue")
}
