package tree

import (
	"github.com/antlr4-go/antlr/v4"
)

// C05 (Go-level unit): the listener FromReader hands to the lexer and to the parser records every syntax
// error it is told about -- whoever reports it (the lexer reports with no offending token, the parser with
// one), wherever it is, whatever the message -- so that FromReader refuses the script.
func VHSyntaxErrors() {
	l := &syntaxErrorListener{}
	b := vNewBuilder()
	n := 1 + vChoose("errors", 2)
	for i := 0; i < n; i++ {
		t := "err" + vItoa(i)
		var offending interface{}
		switch vChoose(t+".offending", 3) {
		case 1:
			offending = b.tok(vIntRange(t+".type", -1, 200), vString(t+".text", 1))
		case 2:
			offending = 7 // not a token at all
		}
		msg := vString(t+".msg", vChoose(t+".msglen", 3))
		panicked := vTry(func() { l.SyntaxError(nil, offending, vIntRange(t+".line", 1, 9), vIntRange(t+".column", 0, 9), msg, nil) })
		vAssert(!panicked, "recording a syntax error never panics")
		vAssert(len(l.messages) == i+1, "every reported syntax error is recorded")
		if len(l.messages) == i+1 {
			vAssert(len(l.messages[i]) >= len(msg), "the recorded error is at least as long as the reported message")
		}
	}
	vReach("syntax-errors")
	var e antlr.ErrorListener = l
	_ = e
}
