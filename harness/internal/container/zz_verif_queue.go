package container

// C20: queue / stack against list models (inductive step from an arbitrary
// representation-invariant state). See DESIGN C20 and appendix B.2.

// vQueueInv is the capacity-agnostic representation invariant.
func vQueueInv(q *Queue[int]) bool {
	if len(q.base) == 0 {
		return q.first == 0 && q.next == 0 || q.first == -1 && q.next == 0
	}
	c := cap(q.base)
	// c >= 2: with a one-cell buffer the growth step would leave next == cap. No history of
	// the real code reaches c == 1 (checked from the zero value by VHQueueRun), so c == 1 is
	// excluded from the invariant rather than reported.
	if len(q.base) != c || c < 2 {
		return false
	}
	if q.first == -1 {
		return q.next == 0
	}
	return 0 <= q.first && q.first < c && 0 <= q.next && q.next < c
}

// vQueueAbs returns the abstract content (front first).
func vQueueAbs(q *Queue[int]) []int {
	if len(q.base) == 0 || q.first == -1 {
		return nil
	}
	c := cap(q.base)
	size := (q.next - q.first + c) % c
	if q.next == q.first {
		size = c
	}
	out := make([]int, 0, size)
	for i := 0; i < size; i++ {
		out = append(out, q.base[(q.first+i)%c])
	}
	return out
}

// vArbitraryQueue builds an arbitrary invariant state of capacity c (c == 0: zero value).
func vArbitraryQueue(c int) *Queue[int] {
	q := &Queue[int]{}
	if c == 0 {
		return q
	}
	q.base = make([]int, c)
	for i := 0; i < c; i++ {
		q.base[i] = vInt("cell" + vItoa(i))
	}
	if vBool("empty") {
		q.first = -1
		q.next = 0
		return q
	}
	q.first = vChoose("first", c)
	q.next = vChoose("next", c)
	return q
}

func vItoa(i int) string {
	if i == 0 {
		return "0"
	}
	s := ""
	for i > 0 {
		s = string(rune('0'+i%10)) + s
		i /= 10
	}
	return s
}

func vEqInts(a, b []int) bool {
	if len(a) != len(b) {
		return false
	}
	for i := range a {
		if a[i] != b[i] {
			return false
		}
	}
	return true
}

// VHQueueStep: one operation from an arbitrary invariant state of capacity C.
func VHQueueStep() {
	c := vParam("C", 8)
	q := vArbitraryQueue(c)
	vAssume(vQueueInv(q))
	before := vQueueAbs(q)
	op := vChoose("op", 4)
	switch op {
	case 0: // Enqueue
		v := vInt("v")
		q.Enqueue(v)
		vReach("enqueue")
		after := vQueueAbs(q)
		vAssert(vQueueInv(q), "enqueue keeps the invariant")
		vAssert(vEqInts(after, append(append([]int{}, before...), v)), "enqueue appends at the back")
		vAssert(q.Size() == len(before)+1, "size after enqueue")
		if len(before) == c && c > 0 {
			vReach("growth")
		}
	case 1: // Dequeue
		var got int
		panicked := vTry(func() { got = q.Dequeue() })
		vAssert(panicked == (len(before) == 0), "dequeue panics iff empty")
		if !panicked {
			vReach("dequeue")
			vAssert(got == before[0], "dequeue returns the front")
			vAssert(vQueueInv(q), "dequeue keeps the invariant")
			vAssert(vEqInts(vQueueAbs(q), before[1:]), "dequeue removes exactly the front")
			vAssert(q.Size() == len(before)-1, "size after dequeue")
		}
	case 2: // Peek
		var got int
		panicked := vTry(func() { got = q.Peek() })
		vAssert(panicked == (len(before) == 0), "peek panics iff empty")
		if !panicked {
			vReach("peek")
			vAssert(got == before[0], "peek returns the front")
			vAssert(vEqInts(vQueueAbs(q), before), "peek changes nothing")
		}
	case 3: // Size
		vReach("size")
		vAssert(q.Size() == len(before), "size equals the number of elements")
		vAssert(vEqInts(vQueueAbs(q), before), "size changes nothing")
	}
}

// VHQueueRun: bounded runs from the zero value through the public methods only (no assumption about the
// representation): P phases of k enqueues then d dequeues, k and d chosen by the solver, against a slice model.
func VHQueueRun() {
	vQueueRun(false)
}

// VHQueueCalib: the same runs, checking at every step that the harness's reading of the representation
// (vQueueInv, vQueueAbs) agrees with the list model. This is a check of the *harness's assumption*, not of the
// property: VHQueueStep is only meaningful while it holds. If it fails while VHQueueRun passes, the queue's
// representation has changed and the driver drops the step harness instead of reporting its verdicts.
func VHQueueCalib() {
	vQueueRun(true)
}

func vQueueRun(calib bool) {
	maxA := vParam("A", 10)
	phases := vParam("P", 2)
	q := &Queue[int]{}
	if calib {
		vAssert(vQueueInv(q), "zero value satisfies the invariant")
	}
	model := []int{}
	n := 0
	for ph := 0; ph < phases; ph++ {
		k := vChoose("enq"+vItoa(ph), maxA+1)
		for i := 0; i < k; i++ {
			v := vInt("v" + vItoa(n))
			n++
			q.Enqueue(v)
			model = append(model, v)
			vAssert(q.Size() == len(model), "size after enqueue in run")
			if calib {
				vAssert(vQueueInv(q) && vEqInts(vQueueAbs(q), model), "representation as the harness reads it, after enqueue")
			}
		}
		d := vChoose("deq"+vItoa(ph), len(model)+1)
		for i := 0; i < d; i++ {
			vAssert(q.Peek() == model[0], "peek in run")
			got := q.Dequeue()
			vAssert(got == model[0], "dequeue order in run")
			model = model[1:]
			vAssert(q.Size() == len(model), "size after dequeue in run")
			if calib {
				vAssert(vQueueInv(q) && vEqInts(vQueueAbs(q), model), "representation as the harness reads it, after dequeue")
			}
		}
	}
	vReach("run-end")
	for len(model) > 0 {
		vAssert(q.Dequeue() == model[0], "drain order")
		model = model[1:]
	}
	vAssert(q.Size() == 0, "empty after drain")
	if vTry(func() { q.Dequeue() }) {
		vReach("empty-panics")
	} else {
		vAssert(false, "dequeue on an empty queue must panic")
	}
	if vTry(func() { q.Peek() }) {
		vReach("empty-peek-panics")
	} else {
		vAssert(false, "peek on an empty queue must panic")
	}
}
