package container

// C20: stack against a list model. Arbitrary slice state: length L, spare capacity S,
// arbitrary (symbolic) contents including the spare cells.

func vArbitraryStack(l, spare int) *Stack[int] {
	back := make([]int, l+spare)
	for i := range back {
		back[i] = vInt("cell" + vItoa(i))
	}
	s := Stack[int](back[:l])
	return &s
}

func vStackAbs(s *Stack[int]) []int {
	out := make([]int, 0, len(*s))
	for i := 0; i < len(*s); i++ {
		out = append(out, (*s)[i])
	}
	return out
}

// VHStackStep: one or two operations from an arbitrary stack state.
func VHStackStep() {
	l := vParam("L", 2)
	spare := vParam("S", 1)
	s := vArbitraryStack(l, spare)
	before := vStackAbs(s)
	op := vChoose("op", 7)
	switch op {
	case 0:
		v := vInt("v")
		s.Push(v)
		vReach("push")
		vAssert(vEqInts(vStackAbs(s), append(append([]int{}, before...), v)), "push adds on top")
		vAssert(s.Size() == l+1, "size after push")
		vAssert(s.Peek() == v, "peek after push")
	case 1:
		a, b := vInt("a"), vInt("b")
		s.PushAll(a, b)
		vReach("pushall")
		vAssert(vEqInts(vStackAbs(s), append(append([]int{}, before...), a, b)), "pushall adds in order")
		vAssert(s.Pop() == b, "pop after pushall returns the last pushed")
		vAssert(s.Pop() == a, "second pop after pushall")
		vAssert(vEqInts(vStackAbs(s), before), "two pops undo pushall")
	case 2:
		var got int
		panicked := vTry(func() { got = s.Pop() })
		vAssert(panicked == (l == 0), "pop panics iff empty")
		if !panicked {
			vReach("pop")
			vAssert(got == before[l-1], "pop returns the top")
			vAssert(vEqInts(vStackAbs(s), before[:l-1]), "pop removes exactly the top")
			vAssert(s.Size() == l-1, "size after pop")
		}
	case 3:
		var got int
		panicked := vTry(func() { got = s.Peek() })
		vAssert(panicked == (l == 0), "peek panics iff empty")
		if !panicked {
			vReach("peek")
			vAssert(got == before[l-1], "peek returns the top")
			vAssert(vEqInts(vStackAbs(s), before), "peek changes nothing")
		}
	case 4:
		vReach("size")
		vAssert(s.Size() == l, "size")
	case 5:
		s.Clear()
		vReach("clear")
		vAssert(s.Size() == 0, "size after clear")
		v := vInt("v")
		s.Push(v)
		vAssert(s.Size() == 1 && s.Peek() == v, "push after clear")
		vAssert(vEqInts(vStackAbs(s), []int{v}), "content after clear+push")
	case 6:
		// pop then push re-uses the backing array: the element below must survive
		if l >= 2 {
			s.Pop()
			v := vInt("v")
			s.Push(v)
			vReach("pop-push")
			vAssert(vEqInts(vStackAbs(s), append(append([]int{}, before[:l-1]...), v)), "pop then push replaces the top only")
		}
	}
}
