package rng

// C05 / C09: seed parsing is total; it errs exactly on characters outside [0-9a-z]; the source seed
// is the base-36 value of the string (so equal seeds give equal streams, different short seeds different ones).

func VHSeed() {
	n := vParam("N", 4)
	seed := vString("seed", n)
	var v int64
	var err error
	panicked := vTry(func() { v, err = seedToInt64(seed) })
	vAssert(!panicked, "seed parsing never panics")
	ok := true
	want := int64(0)
	for i := 0; i < n; i++ {
		c := seed[i]
		switch {
		case '0' <= c && c <= '9':
			want = want*36 + int64(c-'0')
		case 'a' <= c && c <= 'z':
			want = want*36 + int64(c-'a') + 10
		default:
			ok = false
		}
	}
	vAssert((err == nil) == ok, "a seed is accepted exactly when it is over [0-9a-z]")
	if err == nil {
		vReach("accepted")
		vAssert(v == want, "the source seed is the base-36 value of the seed string")
	} else {
		vReach("rejected")
	}
	// NewRNG agrees, and never panics on a non-empty seed
	if n > 0 {
		var r *RNG
		var e2 error
		p2 := vTry(func() { r, e2 = NewRNG(seed) })
		vAssert(!p2 && (e2 == nil) == ok && (r != nil) == ok, "NewRNG accepts exactly the same seeds")
	}
}
