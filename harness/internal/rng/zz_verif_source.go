package rng

import "math/rand"

// VNewRNGWithSource builds an RNG over a caller-supplied source (verification only): the real math/rand
// algorithms then run on source values chosen by the solver, and a native replay uses the same values.
func VNewRNGWithSource(src rand.Source) *RNG {
	return &RNG{seed: "verif", source: rand.New(src)}
}
