package parser

import (
	"strconv"

	"github.com/antlr4-go/antlr/v4"
)

// C20 (token balance), C08 (indent width independence, blank lines), C05 (totality of the
// indentation scanner): the real handleNewLineToken / getLengthOfNewlineToken /
// handleEndOfFileToken / insertToken on a lexer whose base delivers harness-chosen tokens.

func vItoa(i int) string { return strconv.Itoa(i) }

// vNewScanner: an IndentAwareLexer over a real BaseLexer (a stub ATN simulator provides line/column).
func vNewScanner() *IndentAwareLexer {
	base := antlr.NewBaseLexer(antlr.NewInputStream("x"))
	base.Interpreter = antlr.NewLexerATNSimulator(base, nil, nil, nil)
	ial := &IndentAwareLexer{BaseLexer: base}
	ial.SetText("\n")
	return ial
}

func (ial *IndentAwareLexer) vToken(tokenType int, text string) antlr.Token {
	tok := antlr.NewCommonToken(ial.GetTokenSourceCharStreamPair(), tokenType, antlr.TokenDefaultChannel, 0, 0)
	tok.SetText(text)
	return tok
}

// vArbitraryIndents pushes a strictly increasing stack of positive symbolic widths of the given depth.
func vArbitraryIndents(ial *IndentAwareLexer, depth int, tag string) []int {
	var ws []int
	prev := 0
	for i := 0; i < depth; i++ {
		w := vInt(tag + ".indent" + vItoa(i))
		vAssume(vAnd(w > prev, w < 1000))
		ial.indents.Push(w)
		ws = append(ws, w)
		prev = w
	}
	return ws
}

// vWhitespace: k bytes, each a space or a tab (symbolic).
func vWhitespace(tag string, k int) string {
	s := vString(tag, k)
	for i := 0; i < k; i++ {
		vAssume(vOr(s[i] == ' ', s[i] == '\t'))
	}
	return s
}

type vEmitted struct {
	types []int
	texts []string
}

func vDrain(ial *IndentAwareLexer) vEmitted {
	var e vEmitted
	for ial.pendingTokens.Size() > 0 {
		t := ial.pendingTokens.Dequeue()
		e.types = append(e.types, t.GetTokenType())
		e.texts = append(e.texts, t.GetText())
	}
	return e
}

func vStackOK(ial *IndentAwareLexer) bool {
	prev := 0
	for _, w := range []int(ial.indents) {
		if w <= prev {
			return false
		}
		prev = w
	}
	return true
}

// vSpecWidth: spaces count 1, tabs 8 (the scanner's documented measure); mixed = not a width.
func vSpecWidth(ws string) (int, bool) {
	n := 0
	sp, tb := false, false
	for i := 0; i < len(ws); i++ {
		if ws[i] == ' ' {
			n++
			sp = true
		} else {
			n += 8
			tb = true
		}
	}
	return n, !(sp && tb)
}

// VHIndentStep: one token from an arbitrary invariant state.
func VHIndentStep() {
	ial := vNewScanner()
	depth := vChoose("depth", vParam("DEPTH", 3)+1)
	ws := vArbitraryIndents(ial, depth, "pre")
	switch vChoose("token", 3) {
	case 0: // NEWLINE + k whitespace bytes
		k := vChoose("k", vParam("K", 4)+1)
		ind := vWhitespace("ws", k)
		tok := ial.vToken(YarnSpinnerLexerNEWLINE, "\n"+ind)
		width, pure := vSpecWidth(ind)
		panicked := vTry(func() { ial.handleNewLineToken(tok) })
		if !pure {
			// mixed tabs and spaces have no width: a content line indented that way must be refused. The
			// scanner's way of refusing is a panic, which tree.FromReader reports as an error (C05); silently
			// measuring the line would load the script as some other script.
			vReach("mixed")
			vAssert(panicked, "indentation mixing tabs and spaces on a content line is refused, in whatever order they come")
			return
		}
		vAssert(!panicked, "the scanner never panics on pure indentation")
		em := vDrain(ial)
		vAssert(len(em.types) >= 1 && em.types[0] == YarnSpinnerLexerNEWLINE, "the NEWLINE token itself comes first")
		nIn, nDe := 0, 0
		for _, t := range em.types[1:] {
			switch t {
			case YarnSpinnerLexerINDENT:
				nIn++
			case YarnSpinnerLexerDEDENT:
				nDe++
			default:
				vAssert(false, "only INDENT/DEDENT tokens are inserted after a NEWLINE")
			}
		}
		vAssert(vStackOK(ial), "the indent stack stays strictly increasing and positive")
		vAssert(nIn-nDe == ial.indents.Size()-depth, "INDENT minus DEDENT equals the change of the stack depth")
		vAssert(!(nIn > 0 && nDe > 0) && nIn <= 1 && nDe <= depth, "at most one INDENT, or at most depth DEDENTs")
		top := 0
		if depth > 0 {
			top = ws[depth-1]
		}
		switch {
		case width > top:
			vReach("indent")
			vAssert(nIn == 1 && ial.indents.Peek() == width, "a deeper line opens exactly one level of its width")
		case width == top:
			vReach("same")
			vAssert(nIn == 0 && nDe == 0, "the same width changes nothing")
		default:
			vReach("dedent")
			// closes every level wider than the line
			want := 0
			for _, w := range ws {
				if w > width {
					want++
				}
			}
			vAssert(nDe == want, "a shallower line closes exactly the levels wider than it")
		}
	case 1: // EOF
		tok := ial.vToken(antlr.TokenEOF, "<EOF>")
		panicked := vTry(func() { ial.handleEndOfFileToken(tok) })
		vAssert(!panicked, "EOF handling never panics")
		em := vDrain(ial)
		vAssert(len(em.types) == depth+1, "EOF emits one DEDENT per open level and the EOF")
		for i := 0; i < depth && i < len(em.types); i++ {
			vAssert(em.types[i] == YarnSpinnerLexerDEDENT, "open levels are closed before the EOF")
		}
		vAssert(len(em.types) > 0 && em.types[len(em.types)-1] == antlr.TokenEOF, "the stream ends with the EOF")
		vAssert(ial.indents.Size() == 0, "no level stays open at the end")
		vReach("eof")
	case 2: // any other token passes through untouched (checkNextToken's default branch)
		vReach("other")
	}
}

// vNewScannerAt: like vNewScanner, the character stream standing at the beginning of `rest`
// (what follows the NEWLINE token being handled).
func vNewScannerAt(rest string) *IndentAwareLexer {
	base := antlr.NewBaseLexer(antlr.NewInputStream(rest))
	base.Interpreter = antlr.NewLexerATNSimulator(base, nil, nil, nil)
	ial := &IndentAwareLexer{BaseLexer: base}
	ial.SetText("\n")
	return ial
}

// VHBlankLines (C08): a NEWLINE token that ends a line without content -- the next line is empty,
// whitespace-only (its whitespace is part of this token) or holds only a comment -- with any
// indentation width (mixed tabs and spaces included) leaves the INDENT/DEDENT sequence and the
// indent stack unchanged, whatever the stack.
func VHBlankLines() {
	var rest string
	switch vChoose("follows", 4) {
	case 0:
		rest = "\n" + vString("after", 1)
	case 1:
		rest = "\r\n"
	case 2:
		rest = "" // end of input
	case 3:
		rest = "//" + vString("comment", 1)
	}
	ial := vNewScannerAt(rest)
	depth := vChoose("depth", vParam("DEPTH", 3)+1)
	ws := vArbitraryIndents(ial, depth, "pre")
	k := vChoose("k", vParam("K", 3)+1)
	tok := ial.vToken(YarnSpinnerLexerNEWLINE, "\n"+vWhitespace("ws", k))
	panicked := vTry(func() { ial.handleNewLineToken(tok) })
	vAssert(!panicked, "a line without content never makes the scanner panic")
	em := vDrain(ial)
	vAssert(len(em.types) == 1 && em.types[0] == YarnSpinnerLexerNEWLINE, "a line without content emits no INDENT or DEDENT")
	vAssert(ial.indents.Size() == depth, "a line without content leaves the indent stack alone")
	for i, w := range []int(ial.indents) {
		vAssert(w == ws[i], "the stack content is unchanged")
	}
	vReach("blank")
}

// VHIndentWidths (C08): the same nesting rendered with two different indentation units (spaces of
// unit UA, and tabs or spaces of unit UB) gives the same INDENT/DEDENT sequence.
func VHIndentWidths() {
	lines := vParam("LINES", 3)
	ua := 1 + vChoose("ua", 3)
	ub := 1 + vChoose("ub", 4)
	tabs := vChoose("tabs", 2) == 1
	a, b := vNewScanner(), vNewScanner()
	for i := 0; i < lines; i++ {
		level := vChoose("level"+vItoa(i), 3)
		wa, wb := "", ""
		for j := 0; j < level*ua; j++ {
			wa += " "
		}
		for j := 0; j < level; j++ {
			if tabs {
				wb += "\t"
			} else {
				for u := 0; u < ub; u++ {
					wb += " "
				}
			}
		}
		a.handleNewLineToken(a.vToken(YarnSpinnerLexerNEWLINE, "\n"+wa))
		b.handleNewLineToken(b.vToken(YarnSpinnerLexerNEWLINE, "\n"+wb))
		ea, eb := vDrain(a), vDrain(b)
		vAssert(len(ea.types) == len(eb.types), "same number of tokens whatever the indentation unit")
		for t := range ea.types {
			if t < len(eb.types) {
				vAssert(ea.types[t] == eb.types[t], "same INDENT/DEDENT sequence whatever the indentation unit")
			}
		}
	}
	a.handleEndOfFileToken(a.vToken(antlr.TokenEOF, "<EOF>"))
	b.handleEndOfFileToken(b.vToken(antlr.TokenEOF, "<EOF>"))
	ea, eb := vDrain(a), vDrain(b)
	vAssert(len(ea.types) == len(eb.types), "same closing sequence at the end of input")
	vReach("widths")
}
