package main

// Symbolic value representation (DESIGN 3.2).
//
//   bool / intN / uintN / floatN   *Term (constant or symbolic)
//   string                         Str
//   *T                             *Value (nil pointer = (*Value)(nil))
//   struct                         Struct ([]Value, value semantics on load/store)
//   array                          Array  ([]Value)
//   slice                          Slice  ([]Value sharing backing storage like Go slices)
//   map                            *Map   (association list, nil map = (*Map)(nil))
//   interface                      Iface{T,V}; nil interface = Iface{}
//   func                           *ssa.Function | *ssa.Builtin | *Closure (nil func = (*Closure)(nil))
//   chan                           *Chan
//   tuple                          Tuple
//   reflect.Type / reflect.Value   RType / RValue (engine intrinsics)

import (
	"fmt"
	"go/types"
	"strings"

	"golang.org/x/tools/go/ssa"
)

type Value interface{}

type Struct []Value
type Array []Value
type Slice []Value
type Tuple []Value

type Iface struct {
	T types.Type
	V Value
}

type Closure struct {
	Fn  *ssa.Function
	Env []Value
}

type mapEntry struct {
	k, v Value
}

type Map struct {
	kt      types.Type
	entries []mapEntry
}

type Chan struct {
	cap    int
	buf    []Value
	sendq  []Value // values of goroutines blocked in a send on an unbuffered (or full) channel
	closed bool
}

type RType struct{ T types.Type }
type RValue struct {
	T types.Type
	V Value
}

// Str is a string of concrete length. If b == nil the string is the concrete s.
type Str struct {
	s string
	b []*Term
}

func (e *Engine) mkStrConst(s string) Str { return Str{s: s} }

func (x Str) Len() int {
	if x.b != nil {
		return len(x.b)
	}
	return len(x.s)
}

func (x Str) IsConcrete() bool { return x.b == nil }

func (e *Engine) strBytes(x Str) []*Term {
	if x.b != nil {
		return x.b
	}
	out := make([]*Term, len(x.s))
	for i := 0; i < len(x.s); i++ {
		out[i] = e.tt.BVConst(uint64(x.s[i]), 8)
	}
	return out
}

func (e *Engine) strByte(x Str, i int) *Term {
	if x.b != nil {
		return x.b[i]
	}
	return e.tt.BVConst(uint64(x.s[i]), 8)
}

// mkStr builds a string from byte terms, collapsing to a concrete string when possible.
func (e *Engine) mkStr(b []*Term) Str {
	all := true
	for _, t := range b {
		if !t.IsConst() {
			all = false
			break
		}
	}
	if all {
		bs := make([]byte, len(b))
		for i, t := range b {
			bs[i] = byte(t.BV)
		}
		return Str{s: string(bs)}
	}
	if len(b) == 0 {
		return Str{}
	}
	cp := make([]*Term, len(b))
	copy(cp, b)
	return Str{b: cp}
}

func (e *Engine) strConcat(a, b Str) Str {
	if a.b == nil && b.b == nil {
		return Str{s: a.s + b.s}
	}
	if a.Len() == 0 {
		return b
	}
	if b.Len() == 0 {
		return a
	}
	return e.mkStr(append(append([]*Term{}, e.strBytes(a)...), e.strBytes(b)...))
}

func (e *Engine) strSlice(a Str, lo, hi int) Str {
	if a.b == nil {
		return Str{s: a.s[lo:hi]}
	}
	return e.mkStr(a.b[lo:hi])
}

func (e *Engine) strEq(a, b Str) *Term {
	if a.Len() != b.Len() {
		return e.tt.False
	}
	if a.b == nil && b.b == nil {
		return e.tt.Bool(a.s == b.s)
	}
	r := e.tt.True
	for i := 0; i < a.Len(); i++ {
		r = e.tt.And(r, e.tt.Eq(e.strByte(a, i), e.strByte(b, i)))
		if r.IsFalse() {
			return r
		}
	}
	return r
}

// strLt is lexicographic a < b over bytes.
func (e *Engine) strLt(a, b Str) *Term {
	if a.b == nil && b.b == nil {
		return e.tt.Bool(a.s < b.s)
	}
	n := a.Len()
	if b.Len() < n {
		n = b.Len()
	}
	// from the end backwards: lt_i = a[i]<b[i] || (a[i]==b[i] && lt_{i+1}); base: len(a) < len(b)
	r := e.tt.Bool(a.Len() < b.Len())
	for i := n - 1; i >= 0; i-- {
		x, y := e.strByte(a, i), e.strByte(b, i)
		r = e.tt.Or(e.tt.ULt(x, y), e.tt.And(e.tt.Eq(x, y), r))
	}
	return r
}

func (x Str) String() string {
	if x.b == nil {
		return fmt.Sprintf("%q", x.s)
	}
	var sb strings.Builder
	sb.WriteString("sym\"")
	for _, t := range x.b {
		if t.IsConst() {
			sb.WriteString(fmt.Sprintf("%c", rune(t.BV)))
		} else {
			sb.WriteString("?")
		}
	}
	sb.WriteString("\"")
	return sb.String()
}

// ---- types ----

func sortOfBasic(b *types.Basic) (Sort, bool) {
	switch b.Kind() {
	case types.Bool, types.UntypedBool:
		return BoolSort, true
	case types.Int, types.Int64, types.Uint, types.Uint64, types.Uintptr, types.UntypedInt:
		return BVSort(64), true
	case types.Int32, types.Uint32, types.UntypedRune:
		return BVSort(32), true
	case types.Int16, types.Uint16:
		return BVSort(16), true
	case types.Int8, types.Uint8:
		return BVSort(8), true
	case types.Float64, types.UntypedFloat:
		return F64Sort, true
	case types.Float32:
		return F32Sort, true
	}
	return Sort{}, false
}

func isSignedBasic(b *types.Basic) bool {
	return b.Info()&types.IsInteger != 0 && b.Info()&types.IsUnsigned == 0
}

func isSigned(t types.Type) bool {
	if b, ok := t.Underlying().(*types.Basic); ok {
		return isSignedBasic(b)
	}
	return false
}

func derefType(t types.Type) types.Type {
	if p, ok := t.Underlying().(*types.Pointer); ok {
		return p.Elem()
	}
	panic(engineError{fmt.Sprintf("deref of non-pointer type %v", t)})
}

// zero returns the zero value of type t.
func (e *Engine) zero(t types.Type) Value {
	switch t := t.(type) {
	case *types.Basic:
		if t.Kind() == types.String || t.Kind() == types.UntypedString {
			return Str{}
		}
		if t.Kind() == types.UnsafePointer {
			return (*Value)(nil)
		}
		if t.Kind() == types.UntypedNil {
			panic(engineError{"zero of untyped nil"})
		}
		s, ok := sortOfBasic(t)
		if !ok {
			panic(engineError{fmt.Sprintf("zero: unsupported basic type %v", t)})
		}
		switch s.K {
		case SBool:
			return e.tt.False
		case SBV:
			return e.tt.BVConst(0, s.W)
		case SF64:
			return e.tt.F64Const(0)
		case SF32:
			return e.tt.F32Const(0)
		}
	case *types.Pointer:
		return (*Value)(nil)
	case *types.Array:
		a := make(Array, t.Len())
		for i := range a {
			a[i] = e.zero(t.Elem())
		}
		return a
	case *types.Named:
		return e.zero(t.Underlying())
	case *types.Alias:
		return e.zero(types.Unalias(t))
	case *types.Interface:
		return Iface{}
	case *types.Slice:
		return Slice(nil)
	case *types.Struct:
		s := make(Struct, t.NumFields())
		for i := range s {
			s[i] = e.zero(t.Field(i).Type())
		}
		return s
	case *types.Tuple:
		if t.Len() == 1 {
			return e.zero(t.At(0).Type())
		}
		s := make(Tuple, t.Len())
		for i := range s {
			s[i] = e.zero(t.At(i).Type())
		}
		return s
	case *types.Chan:
		return (*Chan)(nil)
	case *types.Map:
		return (*Map)(nil)
	case *types.Signature:
		return (*Closure)(nil)
	}
	panic(engineError{fmt.Sprintf("zero: unsupported type %T %v", t, t)})
}

// copyVal makes a value-semantics copy (structs and arrays are deep-copied).
func copyVal(v Value) Value {
	switch v := v.(type) {
	case Struct:
		c := make(Struct, len(v))
		for i := range v {
			c[i] = copyVal(v[i])
		}
		return c
	case Array:
		c := make(Array, len(v))
		for i := range v {
			c[i] = copyVal(v[i])
		}
		return c
	case Tuple:
		c := make(Tuple, len(v))
		for i := range v {
			c[i] = copyVal(v[i])
		}
		return c
	}
	return v
}

func isNilFunc(v Value) bool {
	switch f := v.(type) {
	case *Closure:
		return f == nil
	case *ssa.Function:
		return f == nil
	case *ssa.Builtin:
		return f == nil
	case nil:
		return true
	}
	return false
}

// equals returns the Bool term for Go's == on two values of (static) type t.
func (e *Engine) equals(t types.Type, a, b Value) *Term {
	switch x := a.(type) {
	case *Term:
		y := b.(*Term)
		if isFP(x.Sort) {
			return e.tt.FEq(x, y)
		}
		return e.tt.Eq(x, y)
	case Str:
		return e.strEq(x, b.(Str))
	case *Value:
		return e.tt.Bool(x == b.(*Value))
	case *Map:
		return e.tt.Bool(x == b.(*Map))
	case *Chan:
		return e.tt.Bool(x == b.(*Chan))
	case Iface:
		y := b.(Iface)
		if x.T == nil || y.T == nil {
			return e.tt.Bool(x.T == nil && y.T == nil)
		}
		if !types.Identical(x.T, y.T) {
			return e.tt.False
		}
		if !types.Comparable(x.T) {
			panic(targetPanic{msg: "runtime error: comparing uncomparable type " + x.T.String()})
		}
		return e.equals(x.T, x.V, y.V)
	case Struct:
		y := b.(Struct)
		st := t.Underlying().(*types.Struct)
		r := e.tt.True
		for i := range x {
			if st.Field(i).Name() == "_" {
				continue
			}
			r = e.tt.And(r, e.equals(st.Field(i).Type(), x[i], y[i]))
		}
		return r
	case Array:
		y := b.(Array)
		at := t.Underlying().(*types.Array)
		r := e.tt.True
		for i := range x {
			r = e.tt.And(r, e.equals(at.Elem(), x[i], y[i]))
		}
		return r
	case Slice:
		// only comparison with nil is legal
		y := b.(Slice)
		return e.tt.Bool((x == nil) == (y == nil) && (x == nil || y == nil))
	case *Closure, *ssa.Function, *ssa.Builtin:
		return e.tt.Bool(isNilFunc(a) && isNilFunc(b))
	case RType:
		y, ok := b.(RType)
		return e.tt.Bool(ok && types.Identical(x.T, y.T))
	case nil:
		return e.tt.Bool(b == nil)
	}
	panic(engineError{fmt.Sprintf("equals: unsupported value %T", a)})
}

func describe(v Value) string {
	switch v := v.(type) {
	case *Term:
		if v.IsConst() {
			switch v.Sort.K {
			case SBool:
				return fmt.Sprint(v.BV == 1)
			case SBV:
				return fmt.Sprint(v.Int())
			default:
				return fmt.Sprint(v.fval())
			}
		}
		return "<sym " + v.Sort.String() + ">"
	case Str:
		return v.String()
	case Iface:
		if v.T == nil {
			return "nil"
		}
		return fmt.Sprintf("iface(%v:%s)", v.T, describe(v.V))
	case *Value:
		if v == nil {
			return "nil"
		}
		return fmt.Sprintf("&%s", describe(*v))
	case Struct:
		var parts []string
		for _, f := range v {
			parts = append(parts, describe(f))
		}
		return "{" + strings.Join(parts, ",") + "}"
	}
	return fmt.Sprintf("%T", v)
}
