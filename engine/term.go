package main

// Hash-consed SMT terms with constant folding.
//
// Sorts: Bool, BV(w) for w in 1..64, FP32, FP64. Every Go scalar the engine
// manipulates is a *Term (constants included), so the interpreter has one code
// path for concrete and symbolic data; concrete data folds away here and never
// reaches the solver.

import (
	"fmt"
	"math"
	"strconv"
	"strings"
)

type SortKind uint8

const (
	SBool SortKind = iota
	SBV
	SF32
	SF64
)

type Sort struct {
	K SortKind
	W int // bit-vector width
}

var (
	BoolSort = Sort{SBool, 0}
	F64Sort  = Sort{SF64, 0}
	F32Sort  = Sort{SF32, 0}
)

func BVSort(w int) Sort { return Sort{SBV, w} }

func (s Sort) String() string {
	switch s.K {
	case SBool:
		return "Bool"
	case SBV:
		return fmt.Sprintf("(_ BitVec %d)", s.W)
	case SF32:
		return "(_ FloatingPoint 8 24)"
	case SF64:
		return "(_ FloatingPoint 11 53)"
	}
	return "?"
}

type Op uint8

const (
	OConst Op = iota
	OVar
	ONot
	OAnd
	OOr
	OIte
	OEq // structural equality, any sort
	// BV
	OAdd
	OSub
	OMul
	OUDiv
	OURem
	OSDiv
	OSRem
	OBAnd
	OBOr
	OBXor
	OBNot
	ONeg
	OShl
	OLShr
	OAShr
	OULt
	OULe
	OSLt
	OSLe
	OConcat
	OExtract // x0=hi x1=lo
	OZExt    // x0 = extra bits
	OSExt
	// FP
	OFAdd
	OFSub
	OFMul
	OFDiv
	OFNeg
	OFAbs
	OFEq
	OFLt
	OFLe
	OFIsNaN
	OFIsInf
	OFRound  // x0 = rounding mode (0 RNE,1 RNA,2 RTP,3 RTN,4 RTZ)
	OFToSBV  // x0 = width ; RTZ
	OSBVToFP // signed bv -> fp (RNE); result sort in Sort
	OUBVToFP
	OFToFP // fp -> fp (RNE)
	OApp   // uninterpreted function, name in Name
)

const (
	RNE = 0
	RNA = 1
	RTP = 2
	RTN = 3
	RTZ = 4
)

var rmName = []string{"RNE", "RNA", "RTP", "RTN", "RTZ"}

type Term struct {
	ID   int
	Op   Op
	Sort Sort
	Args []*Term
	X0   int
	X1   int
	// constants
	BV   uint64 // Bool: 0/1; BV: value (masked); F32: bits; F64: bits
	Name string // OVar, OApp
	Tab  *TermTable
}

type ufDecl struct {
	name string
	args []Sort
	ret  Sort
}

type TermTable struct {
	byKey    map[string]*Term
	all      []*Term
	vars     []*Term
	ufs      map[string]*ufDecl
	ufOrd    []*ufDecl
	True     *Term
	False    *Term
	varCache map[*Term][]*Term
}

func NewTermTable() *TermTable {
	tt := &TermTable{byKey: map[string]*Term{}, ufs: map[string]*ufDecl{}}
	tt.True = tt.mk(&Term{Op: OConst, Sort: BoolSort, BV: 1})
	tt.False = tt.mk(&Term{Op: OConst, Sort: BoolSort, BV: 0})
	return tt
}

func (tt *TermTable) key(t *Term) string {
	var sb strings.Builder
	sb.WriteByte(byte(t.Op) + 'A')
	sb.WriteByte(byte(t.Sort.K) + '0')
	sb.WriteString(strconv.Itoa(t.Sort.W))
	switch t.Op {
	case OConst:
		sb.WriteByte('#')
		sb.WriteString(strconv.FormatUint(t.BV, 16))
	case OVar:
		sb.WriteByte('$')
		sb.WriteString(t.Name)
	default:
		if t.Op == OApp {
			sb.WriteByte('@')
			sb.WriteString(t.Name)
		}
		sb.WriteByte(':')
		sb.WriteString(strconv.Itoa(t.X0))
		sb.WriteByte(',')
		sb.WriteString(strconv.Itoa(t.X1))
		for _, a := range t.Args {
			sb.WriteByte(' ')
			sb.WriteString(strconv.Itoa(a.ID))
		}
	}
	return sb.String()
}

func (tt *TermTable) mk(t *Term) *Term {
	k := tt.key(t)
	if e, ok := tt.byKey[k]; ok {
		return e
	}
	t.ID = len(tt.all)
	t.Tab = tt
	tt.all = append(tt.all, t)
	tt.byKey[k] = t
	if t.Op == OVar {
		tt.vars = append(tt.vars, t)
	}
	return t
}

func (t *Term) IsConst() bool { return t.Op == OConst }
func (t *Term) IsTrue() bool  { return t.Op == OConst && t.Sort.K == SBool && t.BV == 1 }
func (t *Term) IsFalse() bool { return t.Op == OConst && t.Sort.K == SBool && t.BV == 0 }

func mask(w int) uint64 {
	if w >= 64 {
		return ^uint64(0)
	}
	return (uint64(1) << uint(w)) - 1
}

func sext64(v uint64, w int) int64 {
	if w >= 64 {
		return int64(v)
	}
	sh := uint(64 - w)
	return int64(v<<sh) >> sh
}

// ---- constructors ----

func (tt *TermTable) Bool(b bool) *Term {
	if b {
		return tt.True
	}
	return tt.False
}

func (tt *TermTable) BVConst(v uint64, w int) *Term {
	return tt.mk(&Term{Op: OConst, Sort: BVSort(w), BV: v & mask(w)})
}

func (tt *TermTable) IntConst(v int64, w int) *Term { return tt.BVConst(uint64(v), w) }

func (tt *TermTable) F64Const(f float64) *Term {
	b := math.Float64bits(f)
	if f != f {
		b = 0x7ff8000000000001 // canonical NaN
	}
	return tt.mk(&Term{Op: OConst, Sort: F64Sort, BV: b})
}

func (tt *TermTable) F32Const(f float32) *Term {
	b := uint64(math.Float32bits(f))
	if f != f {
		b = 0x7fc00001
	}
	return tt.mk(&Term{Op: OConst, Sort: F32Sort, BV: b})
}

func (tt *TermTable) Var(name string, s Sort) *Term {
	return tt.mk(&Term{Op: OVar, Sort: s, Name: name})
}

func (t *Term) F64() float64 { return math.Float64frombits(t.BV) }
func (t *Term) F32() float32 { return math.Float32frombits(uint32(t.BV)) }
func (t *Term) Int() int64   { return sext64(t.BV, t.Sort.W) }
func (t *Term) Uint() uint64 { return t.BV }

func (t *Term) fval() float64 {
	if t.Sort.K == SF32 {
		return float64(t.F32())
	}
	return t.F64()
}

func (tt *TermTable) fconst(s Sort, f float64) *Term {
	if s.K == SF32 {
		return tt.F32Const(float32(f))
	}
	return tt.F64Const(f)
}

func (tt *TermTable) Not(a *Term) *Term {
	if a.IsConst() {
		return tt.Bool(a.BV == 0)
	}
	if a.Op == ONot {
		return a.Args[0]
	}
	return tt.mk(&Term{Op: ONot, Sort: BoolSort, Args: []*Term{a}})
}

func (tt *TermTable) And(a, b *Term) *Term {
	if a.IsFalse() || b.IsFalse() {
		return tt.False
	}
	if a.IsTrue() {
		return b
	}
	if b.IsTrue() {
		return a
	}
	if a == b {
		return a
	}
	if a.ID > b.ID {
		a, b = b, a
	}
	return tt.mk(&Term{Op: OAnd, Sort: BoolSort, Args: []*Term{a, b}})
}

func (tt *TermTable) Or(a, b *Term) *Term {
	if a.IsTrue() || b.IsTrue() {
		return tt.True
	}
	if a.IsFalse() {
		return b
	}
	if b.IsFalse() {
		return a
	}
	if a == b {
		return a
	}
	if a.ID > b.ID {
		a, b = b, a
	}
	return tt.mk(&Term{Op: OOr, Sort: BoolSort, Args: []*Term{a, b}})
}

func (tt *TermTable) Ite(c, a, b *Term) *Term {
	if c.IsTrue() {
		return a
	}
	if c.IsFalse() {
		return b
	}
	if a == b {
		return a
	}
	if a.Sort.K == SBool {
		if a.IsTrue() && b.IsFalse() {
			return c
		}
		if a.IsFalse() && b.IsTrue() {
			return tt.Not(c)
		}
	}
	return tt.mk(&Term{Op: OIte, Sort: a.Sort, Args: []*Term{c, a, b}})
}

// Eq is structural (SMT "=") equality.
func (tt *TermTable) Eq(a, b *Term) *Term {
	if a.Sort != b.Sort {
		panic(fmt.Sprintf("Eq sort mismatch %v %v", a.Sort, b.Sort))
	}
	if a == b {
		return tt.True
	}
	if a.IsConst() && b.IsConst() {
		return tt.Bool(a.BV == b.BV)
	}
	if a.Sort.K == SBool {
		if a.IsTrue() {
			return b
		}
		if b.IsTrue() {
			return a
		}
		if a.IsFalse() {
			return tt.Not(b)
		}
		if b.IsFalse() {
			return tt.Not(a)
		}
	}
	if a.ID > b.ID {
		a, b = b, a
	}
	return tt.mk(&Term{Op: OEq, Sort: BoolSort, Args: []*Term{a, b}})
}

func (tt *TermTable) bvbin(op Op, a, b *Term) *Term {
	w := a.Sort.W
	if a.Sort != b.Sort || a.Sort.K != SBV {
		panic(fmt.Sprintf("bvbin sort mismatch op=%d %v %v", op, a.Sort, b.Sort))
	}
	if a.IsConst() && b.IsConst() {
		x, y := a.BV, b.BV
		var r uint64
		switch op {
		case OAdd:
			r = x + y
		case OSub:
			r = x - y
		case OMul:
			r = x * y
		case OUDiv:
			if y == 0 {
				r = mask(w)
			} else {
				r = x / y
			}
		case OURem:
			if y == 0 {
				r = x
			} else {
				r = x % y
			}
		case OSDiv:
			sx, sy := sext64(x, w), sext64(y, w)
			if sy == 0 {
				if sx < 0 {
					r = 1
				} else {
					r = mask(w)
				}
			} else if sy == -1 {
				r = uint64(-sx)
			} else {
				r = uint64(sx / sy)
			}
		case OSRem:
			sx, sy := sext64(x, w), sext64(y, w)
			if sy == 0 {
				r = x
			} else if sy == -1 {
				r = 0
			} else {
				r = uint64(sx % sy)
			}
		case OBAnd:
			r = x & y
		case OBOr:
			r = x | y
		case OBXor:
			r = x ^ y
		case OShl:
			if y >= uint64(w) {
				r = 0
			} else {
				r = x << y
			}
		case OLShr:
			if y >= uint64(w) {
				r = 0
			} else {
				r = x >> y
			}
		case OAShr:
			sx := sext64(x, w)
			if y >= uint64(w) {
				y = uint64(w - 1)
			}
			r = uint64(sx >> y)
		}
		return tt.BVConst(r, w)
	}
	// light algebraic simplification
	switch op {
	case OAdd:
		if a.IsConst() && a.BV == 0 {
			return b
		}
		if b.IsConst() && b.BV == 0 {
			return a
		}
	case OSub:
		if b.IsConst() && b.BV == 0 {
			return a
		}
		if a == b {
			return tt.BVConst(0, w)
		}
	case OMul:
		if a.IsConst() && a.BV == 1 {
			return b
		}
		if b.IsConst() && b.BV == 1 {
			return a
		}
		if (a.IsConst() && a.BV == 0) || (b.IsConst() && b.BV == 0) {
			return tt.BVConst(0, w)
		}
	case OBAnd:
		if a == b {
			return a
		}
	case OBOr:
		if a == b {
			return a
		}
	}
	return tt.mk(&Term{Op: op, Sort: a.Sort, Args: []*Term{a, b}})
}

func (tt *TermTable) Add(a, b *Term) *Term  { return tt.bvbin(OAdd, a, b) }
func (tt *TermTable) Sub(a, b *Term) *Term  { return tt.bvbin(OSub, a, b) }
func (tt *TermTable) Mul(a, b *Term) *Term  { return tt.bvbin(OMul, a, b) }
func (tt *TermTable) UDiv(a, b *Term) *Term { return tt.bvbin(OUDiv, a, b) }
func (tt *TermTable) URem(a, b *Term) *Term { return tt.bvbin(OURem, a, b) }
func (tt *TermTable) SDiv(a, b *Term) *Term { return tt.bvbin(OSDiv, a, b) }
func (tt *TermTable) SRem(a, b *Term) *Term { return tt.bvbin(OSRem, a, b) }
func (tt *TermTable) BAnd(a, b *Term) *Term { return tt.bvbin(OBAnd, a, b) }
func (tt *TermTable) BOr(a, b *Term) *Term  { return tt.bvbin(OBOr, a, b) }
func (tt *TermTable) BXor(a, b *Term) *Term { return tt.bvbin(OBXor, a, b) }
func (tt *TermTable) Shl(a, b *Term) *Term  { return tt.bvbin(OShl, a, b) }
func (tt *TermTable) LShr(a, b *Term) *Term { return tt.bvbin(OLShr, a, b) }
func (tt *TermTable) AShr(a, b *Term) *Term { return tt.bvbin(OAShr, a, b) }

func (tt *TermTable) BNot(a *Term) *Term {
	if a.IsConst() {
		return tt.BVConst(^a.BV, a.Sort.W)
	}
	return tt.mk(&Term{Op: OBNot, Sort: a.Sort, Args: []*Term{a}})
}

func (tt *TermTable) Neg(a *Term) *Term {
	if a.IsConst() {
		return tt.BVConst(-a.BV, a.Sort.W)
	}
	return tt.mk(&Term{Op: ONeg, Sort: a.Sort, Args: []*Term{a}})
}

func (tt *TermTable) bvcmp(op Op, a, b *Term) *Term {
	if a.Sort != b.Sort || a.Sort.K != SBV {
		panic(fmt.Sprintf("bvcmp sort mismatch %v %v", a.Sort, b.Sort))
	}
	w := a.Sort.W
	if a.IsConst() && b.IsConst() {
		switch op {
		case OULt:
			return tt.Bool(a.BV < b.BV)
		case OULe:
			return tt.Bool(a.BV <= b.BV)
		case OSLt:
			return tt.Bool(sext64(a.BV, w) < sext64(b.BV, w))
		case OSLe:
			return tt.Bool(sext64(a.BV, w) <= sext64(b.BV, w))
		}
	}
	if a == b {
		return tt.Bool(op == OULe || op == OSLe)
	}
	return tt.mk(&Term{Op: op, Sort: BoolSort, Args: []*Term{a, b}})
}

func (tt *TermTable) ULt(a, b *Term) *Term { return tt.bvcmp(OULt, a, b) }
func (tt *TermTable) ULe(a, b *Term) *Term { return tt.bvcmp(OULe, a, b) }
func (tt *TermTable) SLt(a, b *Term) *Term { return tt.bvcmp(OSLt, a, b) }
func (tt *TermTable) SLe(a, b *Term) *Term { return tt.bvcmp(OSLe, a, b) }

func (tt *TermTable) Extract(a *Term, hi, lo int) *Term {
	w := hi - lo + 1
	if lo == 0 && w == a.Sort.W {
		return a
	}
	if a.IsConst() {
		return tt.BVConst(a.BV>>uint(lo), w)
	}
	// extract of zext/sext that stays inside the original
	if (a.Op == OZExt || a.Op == OSExt) && hi < a.Args[0].Sort.W {
		return tt.Extract(a.Args[0], hi, lo)
	}
	return tt.mk(&Term{Op: OExtract, Sort: BVSort(w), Args: []*Term{a}, X0: hi, X1: lo})
}

func (tt *TermTable) ZExt(a *Term, to int) *Term {
	if to == a.Sort.W {
		return a
	}
	if to < a.Sort.W {
		return tt.Extract(a, to-1, 0)
	}
	if a.IsConst() {
		return tt.BVConst(a.BV, to)
	}
	return tt.mk(&Term{Op: OZExt, Sort: BVSort(to), Args: []*Term{a}, X0: to - a.Sort.W})
}

func (tt *TermTable) SExt(a *Term, to int) *Term {
	if to == a.Sort.W {
		return a
	}
	if to < a.Sort.W {
		return tt.Extract(a, to-1, 0)
	}
	if a.IsConst() {
		return tt.BVConst(uint64(sext64(a.BV, a.Sort.W)), to)
	}
	return tt.mk(&Term{Op: OSExt, Sort: BVSort(to), Args: []*Term{a}, X0: to - a.Sort.W})
}

func (tt *TermTable) Concat(hi, lo *Term) *Term {
	w := hi.Sort.W + lo.Sort.W
	if hi.IsConst() && lo.IsConst() && w <= 64 {
		return tt.BVConst(hi.BV<<uint(lo.Sort.W)|lo.BV, w)
	}
	return tt.mk(&Term{Op: OConcat, Sort: BVSort(w), Args: []*Term{hi, lo}})
}

// ---- floating point ----

func isFP(s Sort) bool { return s.K == SF32 || s.K == SF64 }

func (tt *TermTable) fbin(op Op, a, b *Term) *Term {
	if a.Sort != b.Sort || !isFP(a.Sort) {
		panic("fbin sort mismatch")
	}
	if a.IsConst() && b.IsConst() {
		if a.Sort.K == SF32 {
			x, y := a.F32(), b.F32()
			var r float32
			switch op {
			case OFAdd:
				r = x + y
			case OFSub:
				r = x - y
			case OFMul:
				r = x * y
			case OFDiv:
				r = x / y
			}
			return tt.F32Const(r)
		}
		x, y := a.F64(), b.F64()
		var r float64
		switch op {
		case OFAdd:
			r = x + y
		case OFSub:
			r = x - y
		case OFMul:
			r = x * y
		case OFDiv:
			r = x / y
		}
		return tt.F64Const(r)
	}
	return tt.mk(&Term{Op: op, Sort: a.Sort, Args: []*Term{a, b}})
}

func (tt *TermTable) FAdd(a, b *Term) *Term { return tt.fbin(OFAdd, a, b) }
func (tt *TermTable) FSub(a, b *Term) *Term { return tt.fbin(OFSub, a, b) }
func (tt *TermTable) FMul(a, b *Term) *Term { return tt.fbin(OFMul, a, b) }
func (tt *TermTable) FDiv(a, b *Term) *Term { return tt.fbin(OFDiv, a, b) }

func (tt *TermTable) FNeg(a *Term) *Term {
	if a.IsConst() {
		return tt.fconst(a.Sort, -a.fval())
	}
	if a.Op == OFNeg {
		return a.Args[0]
	}
	return tt.mk(&Term{Op: OFNeg, Sort: a.Sort, Args: []*Term{a}})
}

func (tt *TermTable) FAbs(a *Term) *Term {
	if a.IsConst() {
		return tt.fconst(a.Sort, math.Abs(a.fval()))
	}
	return tt.mk(&Term{Op: OFAbs, Sort: a.Sort, Args: []*Term{a}})
}

func (tt *TermTable) fcmp(op Op, a, b *Term) *Term {
	if a.Sort != b.Sort || !isFP(a.Sort) {
		panic("fcmp sort mismatch")
	}
	if a.IsConst() && b.IsConst() {
		x, y := a.fval(), b.fval()
		switch op {
		case OFEq:
			return tt.Bool(x == y)
		case OFLt:
			return tt.Bool(x < y)
		case OFLe:
			return tt.Bool(x <= y)
		}
	}
	if a == b {
		// x == x and x <= x hold unless x is NaN; x < x never holds
		if op == OFLt {
			return tt.False
		}
		return tt.Not(tt.FIsNaN(a))
	}
	return tt.mk(&Term{Op: op, Sort: BoolSort, Args: []*Term{a, b}})
}

func (tt *TermTable) FEq(a, b *Term) *Term { return tt.fcmp(OFEq, a, b) }
func (tt *TermTable) FLt(a, b *Term) *Term { return tt.fcmp(OFLt, a, b) }
func (tt *TermTable) FLe(a, b *Term) *Term { return tt.fcmp(OFLe, a, b) }

func (tt *TermTable) FIsNaN(a *Term) *Term {
	if a.IsConst() {
		return tt.Bool(math.IsNaN(a.fval()))
	}
	switch a.Op {
	case OSBVToFP, OUBVToFP, OFRound:
		if a.Op != OFRound {
			return tt.False // an integer converts to a number
		}
	case OFNeg, OFAbs:
		return tt.FIsNaN(a.Args[0])
	}
	return tt.mk(&Term{Op: OFIsNaN, Sort: BoolSort, Args: []*Term{a}})
}

func (tt *TermTable) FIsInf(a *Term) *Term {
	if a.IsConst() {
		return tt.Bool(math.IsInf(a.fval(), 0))
	}
	return tt.mk(&Term{Op: OFIsInf, Sort: BoolSort, Args: []*Term{a}})
}

func (tt *TermTable) FRound(a *Term, mode int) *Term {
	if a.IsConst() {
		x := a.fval()
		switch mode {
		case RNE:
			x = math.RoundToEven(x)
		case RNA:
			x = math.Round(x)
		case RTP:
			x = math.Ceil(x)
		case RTN:
			x = math.Floor(x)
		case RTZ:
			x = math.Trunc(x)
		}
		return tt.fconst(a.Sort, x)
	}
	return tt.mk(&Term{Op: OFRound, Sort: a.Sort, Args: []*Term{a}, X0: mode})
}

// FToSBV converts toward zero. The caller guards the out-of-range cases.
func (tt *TermTable) FToSBV(a *Term, w int) *Term {
	if a.IsConst() {
		x := a.fval()
		// mirror amd64 cvttsd2sq
		if x != x || x >= 9.223372036854775808e18 || x < -9.223372036854775808e18 {
			return tt.BVConst(0x8000000000000000, w)
		}
		return tt.BVConst(uint64(int64(x)), w)
	}
	return tt.mk(&Term{Op: OFToSBV, Sort: BVSort(w), Args: []*Term{a}, X0: w})
}

func (tt *TermTable) SBVToFP(a *Term, s Sort) *Term {
	// float(-i) = -float(i) when -i cannot overflow: keeps negated integers in a normal form
	if a.Op == ONeg && signedBits(a.Args[0]) < a.Sort.W {
		return tt.FNeg(tt.SBVToFP(a.Args[0], s))
	}
	if a.IsConst() {
		v := sext64(a.BV, a.Sort.W)
		if s.K == SF32 {
			return tt.F32Const(float32(v))
		}
		return tt.F64Const(float64(v))
	}
	return tt.mk(&Term{Op: OSBVToFP, Sort: s, Args: []*Term{a}})
}

func (tt *TermTable) UBVToFP(a *Term, s Sort) *Term {
	if a.IsConst() {
		if s.K == SF32 {
			return tt.F32Const(float32(a.BV))
		}
		return tt.F64Const(float64(a.BV))
	}
	return tt.mk(&Term{Op: OUBVToFP, Sort: s, Args: []*Term{a}})
}

func (tt *TermTable) FToFP(a *Term, s Sort) *Term {
	if a.Sort == s {
		return a
	}
	if a.IsConst() {
		if s.K == SF32 {
			return tt.F32Const(float32(a.F64()))
		}
		return tt.F64Const(float64(a.F32()))
	}
	return tt.mk(&Term{Op: OFToFP, Sort: s, Args: []*Term{a}})
}

// App builds an application of an uninterpreted function, declaring it on first use.
func (tt *TermTable) App(name string, ret Sort, args ...*Term) *Term {
	d, ok := tt.ufs[name]
	if !ok {
		d = &ufDecl{name: name, ret: ret}
		for _, a := range args {
			d.args = append(d.args, a.Sort)
		}
		tt.ufs[name] = d
		tt.ufOrd = append(tt.ufOrd, d)
	}
	return tt.mk(&Term{Op: OApp, Sort: ret, Args: args, Name: name})
}

// ---- printing ----

func bvLit(v uint64, w int) string {
	if w%4 == 0 {
		return fmt.Sprintf("#x%0*x", w/4, v)
	}
	return fmt.Sprintf("#b%0*b", w, v)
}

func (t *Term) constString() string {
	switch t.Sort.K {
	case SBool:
		if t.BV == 1 {
			return "true"
		}
		return "false"
	case SBV:
		return bvLit(t.BV, t.Sort.W)
	case SF64:
		f := t.F64()
		if f != f {
			return "(_ NaN 11 53)"
		}
		return fmt.Sprintf("(fp #b%b #b%011b #x%013x)", t.BV>>63, (t.BV>>52)&0x7ff, t.BV&0xfffffffffffff)
	case SF32:
		f := t.F32()
		if f != f {
			return "(_ NaN 8 24)"
		}
		return fmt.Sprintf("(fp #b%b #b%08b #b%023b)", (t.BV>>31)&1, (t.BV>>23)&0xff, t.BV&0x7fffff)
	}
	return "?"
}

func smtName(s string) string {
	return "|" + strings.NewReplacer("|", "_", "\\", "_").Replace(s) + "|"
}

// ref is how a term is referred to inside another term's definition.
func (t *Term) ref() string {
	switch t.Op {
	case OConst:
		return t.constString()
	case OVar:
		return t.varName()
	}
	return "t" + strconv.Itoa(t.ID)
}

// varName: the SMT name of an input variable; the sort is part of it because the same harness input
// name may be requested with different types on different paths (declarations are global).
func (t *Term) varName() string {
	suffix := "!b"
	switch t.Sort.K {
	case SBV:
		suffix = "!" + strconv.Itoa(t.Sort.W)
	case SF64:
		suffix = "!f"
	case SF32:
		suffix = "!g"
	}
	return smtName(t.Name + suffix)
}

func fpSortArgs(s Sort) string {
	if s.K == SF32 {
		return "8 24"
	}
	return "11 53"
}

// body prints the defining expression of t in terms of refs of its arguments.
func (t *Term) body() string {
	a := func(i int) string { return t.Args[i].ref() }
	bin := func(op string) string { return "(" + op + " " + a(0) + " " + a(1) + ")" }
	un := func(op string) string { return "(" + op + " " + a(0) + ")" }
	switch t.Op {
	case ONot:
		return un("not")
	case OAnd:
		return bin("and")
	case OOr:
		return bin("or")
	case OIte:
		return "(ite " + a(0) + " " + a(1) + " " + a(2) + ")"
	case OEq:
		return bin("=")
	case OAdd:
		return bin("bvadd")
	case OSub:
		return bin("bvsub")
	case OMul:
		return bin("bvmul")
	case OUDiv:
		return bin("bvudiv")
	case OURem:
		return bin("bvurem")
	case OSDiv:
		return bin("bvsdiv")
	case OSRem:
		return bin("bvsrem")
	case OBAnd:
		return bin("bvand")
	case OBOr:
		return bin("bvor")
	case OBXor:
		return bin("bvxor")
	case OBNot:
		return un("bvnot")
	case ONeg:
		return un("bvneg")
	case OShl:
		return bin("bvshl")
	case OLShr:
		return bin("bvlshr")
	case OAShr:
		return bin("bvashr")
	case OULt:
		return bin("bvult")
	case OULe:
		return bin("bvule")
	case OSLt:
		return bin("bvslt")
	case OSLe:
		return bin("bvsle")
	case OConcat:
		return bin("concat")
	case OExtract:
		return fmt.Sprintf("((_ extract %d %d) %s)", t.X0, t.X1, a(0))
	case OZExt:
		return fmt.Sprintf("((_ zero_extend %d) %s)", t.X0, a(0))
	case OSExt:
		return fmt.Sprintf("((_ sign_extend %d) %s)", t.X0, a(0))
	case OFAdd:
		return "(fp.add RNE " + a(0) + " " + a(1) + ")"
	case OFSub:
		return "(fp.sub RNE " + a(0) + " " + a(1) + ")"
	case OFMul:
		return "(fp.mul RNE " + a(0) + " " + a(1) + ")"
	case OFDiv:
		return "(fp.div RNE " + a(0) + " " + a(1) + ")"
	case OFNeg:
		return un("fp.neg")
	case OFAbs:
		return un("fp.abs")
	case OFEq:
		return bin("fp.eq")
	case OFLt:
		return bin("fp.lt")
	case OFLe:
		return bin("fp.leq")
	case OFIsNaN:
		return un("fp.isNaN")
	case OFIsInf:
		return un("fp.isInfinite")
	case OFRound:
		return "(fp.roundToIntegral " + rmName[t.X0] + " " + a(0) + ")"
	case OFToSBV:
		return fmt.Sprintf("((_ fp.to_sbv %d) RTZ %s)", t.X0, a(0))
	case OSBVToFP:
		return fmt.Sprintf("((_ to_fp %s) RNE %s)", fpSortArgs(t.Sort), a(0))
	case OUBVToFP:
		return fmt.Sprintf("((_ to_fp_unsigned %s) RNE %s)", fpSortArgs(t.Sort), a(0))
	case OFToFP:
		return fmt.Sprintf("((_ to_fp %s) RNE %s)", fpSortArgs(t.Sort), a(0))
	case OApp:
		if len(t.Args) == 0 {
			return smtName(t.Name)
		}
		var sb strings.Builder
		sb.WriteString("(" + smtName(t.Name))
		for i := range t.Args {
			sb.WriteString(" " + a(i))
		}
		sb.WriteString(")")
		return sb.String()
	}
	panic(fmt.Sprintf("body: op %d", t.Op))
}

// String prints a (possibly large) fully expanded form, for diagnostics only.
func (t *Term) String() string {
	return t.expand(0)
}

func (t *Term) expand(depth int) string {
	if t.Op == OConst || t.Op == OVar {
		return t.ref()
	}
	if depth > 6 {
		return "…"
	}
	s := t.body()
	// replace tN refs by expansion (diagnostics only; crude)
	for _, a := range t.Args {
		if a.Op != OConst && a.Op != OVar {
			s = strings.Replace(s, a.ref(), a.expand(depth+1), 1)
		}
	}
	return s
}
