package main

// gosym: symbolic execution of Go SSA for the ysgo verification harnesses.
//
//   gosym -pkg <import path> -harness <Func> [-param k=v]... [-solver z3|z3new|cvc5]
//         [-workers n] [-json out.json] [-concrete inputs.json] [-known id,id]

import (
	"encoding/json"
	"flag"
	"fmt"
	"os"
	"path/filepath"
	"sort"
	"strconv"
	"strings"

	"golang.org/x/tools/go/packages"
	"golang.org/x/tools/go/ssa"
	"golang.org/x/tools/go/ssa/ssautil"
)

type multiFlag []string

func (m *multiFlag) String() string     { return strings.Join(*m, ",") }
func (m *multiFlag) Set(s string) error { *m = append(*m, s); return nil }

const modPath = "github.com/remieven/ysgo"

// buildOverlay maps every file under harnessDir into the repo tree as a virtual file.
// harnessDir/<rel pkg dir or "root">/zz_*.go ; harnessDir/prelude.go.txt is instantiated per package.
func buildOverlay(repo, harnessDir string) (map[string][]byte, error) {
	overlay := map[string][]byte{}
	prelude, err := os.ReadFile(filepath.Join(harnessDir, "prelude.go.txt"))
	if err != nil {
		return nil, err
	}
	err = filepath.Walk(harnessDir, func(path string, info os.FileInfo, err error) error {
		if err != nil {
			return err
		}
		if info.IsDir() || !strings.HasSuffix(path, ".go") || strings.HasSuffix(path, "_test.go") {
			return nil
		}
		rel, _ := filepath.Rel(harnessDir, path)
		dir := filepath.Dir(rel)
		target := dir
		if strings.HasPrefix(dir, "root") {
			target = strings.TrimPrefix(strings.TrimPrefix(dir, "root"), "/")
		}
		b, err := os.ReadFile(path)
		if err != nil {
			return err
		}
		overlay[filepath.Join(repo, target, filepath.Base(path))] = b
		// one prelude per package dir
		pkgName := packageClause(b)
		pre := filepath.Join(repo, target, "zz_verif_rt.go")
		if _, ok := overlay[pre]; !ok && pkgName != "" && !strings.Contains(string(b), "verif:noprelude") {
			overlay[pre] = []byte(strings.Replace(string(prelude), "package PKG", "package "+pkgName, 1))
		}
		return nil
	})
	return overlay, err
}

func packageClause(src []byte) string {
	for _, line := range strings.Split(string(src), "\n") {
		line = strings.TrimSpace(line)
		if strings.HasPrefix(line, "package ") {
			return strings.TrimSpace(strings.TrimPrefix(line, "package "))
		}
	}
	return ""
}

func loadProgram(repo, harnessDir string) (*ssa.Program, []*ssa.Package, error) {
	overlay, err := buildOverlay(repo, harnessDir)
	if err != nil {
		return nil, nil, err
	}
	cfg := &packages.Config{
		Mode: packages.NeedName | packages.NeedFiles | packages.NeedCompiledGoFiles | packages.NeedImports |
			packages.NeedDeps | packages.NeedTypes | packages.NeedSyntax | packages.NeedTypesInfo | packages.NeedTypesSizes | packages.NeedModule,
		Dir:        repo,
		Overlay:    overlay,
		BuildFlags: []string{"-tags=verif"},
		Env:        append(os.Environ(), "GOFLAGS=-mod=mod", "GOPROXY=off", "GOSUMDB=off", "GOTOOLCHAIN=local"),
	}
	pkgs, err := packages.Load(cfg, "./...")
	if err != nil {
		return nil, nil, err
	}
	nerr := 0
	packages.Visit(pkgs, nil, func(p *packages.Package) {
		for _, e := range p.Errors {
			if strings.HasPrefix(p.PkgPath, modPath) {
				fmt.Fprintf(os.Stderr, "load error in %s: %v\n", p.PkgPath, e)
				nerr++
			}
		}
	})
	if nerr > 0 {
		return nil, nil, fmt.Errorf("%d load errors", nerr)
	}
	prog, spkgs := ssautil.AllPackages(pkgs, ssa.InstantiateGenerics)
	prog.Build()
	return prog, spkgs, nil
}

func main() {
	var (
		repo       = flag.String("repo", "/repo", "repository under test")
		harnessDir = flag.String("harnessdir", "/verif/harness", "harness overlay directory")
		pkgPath    = flag.String("pkg", "", "import path (or suffix) of the package holding the harness")
		harness    = flag.String("harness", "", "harness function name")
		solver     = flag.String("solver", "z3", "z3 | z3new | cvc5")
		workers    = flag.Int("workers", 1, "parallel workers")
		timeoutMs  = flag.Int("timeout", 20000, "per-query timeout (ms)")
		maxSteps   = flag.Int("maxsteps", 2000000, "SSA instruction budget per path")
		maxDepth   = flag.Int("maxdepth", 200, "call depth budget")
		maxPaths   = flag.Int("maxpaths", 0, "path budget (0 = none)")
		maxWall    = flag.Int("maxwall", 0, "wall-clock budget in seconds (0 = none): exploration stops, what was found is reported, the run is inconclusive")
		maxViol    = flag.Int("maxviol", 8, "stop after this many distinct violations")
		resetEvery = flag.Int("resetevery", 3000, "restart solver and term table every n paths per worker")
		jsonOut    = flag.String("json", "", "write result JSON here")
		concrete   = flag.String("concrete", "", "selftest: run concretely on the inputs of this JSON file")
		known      = flag.String("known", "", "comma-separated ids of known findings whose regions are excluded")
		mapOrder   = flag.String("maporder", "insertion", "insertion | symbolic")
		trace      = flag.Bool("trace", false, "trace SSA instructions")
		list       = flag.Bool("list", false, "list harness functions and exit")
		concretes  = flag.String("concretes", "", "translator validation: run the harness concretely on each input vector of this JSON file ({\"vectors\":[{name:{t,v}}...]}) and write the list of outcomes")
		cross      = flag.String("cross", "", "second solver (z3|z3new|cvc5): re-discharge solver-decided obligations one-shot")
		crossMax   = flag.Int("crossmax", 300, "at most this many cross-checked obligations")
		crossTO    = flag.Int("crosstimeout", 30000, "time limit of one cross-check (ms); a timeout counts as second-solver-unknown")
		params     multiFlag
		stubs      multiFlag
	)
	flag.Var(&params, "param", "k=v harness parameter (repeatable)")
	flag.Var(&stubs, "stub", "<full function name>=<harness function> : calls to the former run the latter (repeatable)")
	flag.Parse()

	prog, spkgs, err := loadProgram(*repo, *harnessDir)
	if err != nil {
		fmt.Fprintln(os.Stderr, "gosym: load:", err)
		os.Exit(3)
	}
	if *list {
		for _, p := range spkgs {
			if p == nil || !strings.HasPrefix(p.Pkg.Path(), modPath) {
				continue
			}
			var names []string
			for name, m := range p.Members {
				if f, ok := m.(*ssa.Function); ok && strings.HasPrefix(name, "VH") || strings.HasPrefix(name, "vh") {
					_ = f
					names = append(names, name)
				}
			}
			sort.Strings(names)
			for _, n := range names {
				fmt.Printf("%s %s\n", p.Pkg.Path(), n)
			}
		}
		return
	}
	var target *ssa.Package
	for _, p := range spkgs {
		if p == nil {
			continue
		}
		if p.Pkg.Path() == *pkgPath || p.Pkg.Path() == modPath+"/"+*pkgPath || (*pkgPath == "root" && p.Pkg.Path() == modPath) {
			target = p
		}
	}
	if target == nil {
		fmt.Fprintln(os.Stderr, "gosym: package not found:", *pkgPath)
		os.Exit(3)
	}
	hf := target.Func(*harness)
	if hf == nil {
		fmt.Fprintln(os.Stderr, "gosym: harness not found:", *harness)
		os.Exit(3)
	}
	cfg := Config{MaxSteps: *maxSteps, MaxDepth: *maxDepth, Trace: *trace, MapOrder: *mapOrder, Solver: *solver,
		TimeoutMs: *timeoutMs, Workers: *workers, MaxPaths: *maxPaths, MaxWallS: *maxWall, MaxViol: *maxViol, ResetEvery: *resetEvery,
		Params: map[string]int64{}, Known: map[string]bool{}, CrossSolver: *cross, CrossMax: *crossMax, CrossTimeoutMs: *crossTO}
	for _, kv := range params {
		i := strings.IndexByte(kv, '=')
		if i < 0 {
			fmt.Fprintln(os.Stderr, "gosym: bad -param", kv)
			os.Exit(3)
		}
		v, err := strconv.ParseInt(kv[i+1:], 10, 64)
		if err != nil {
			fmt.Fprintln(os.Stderr, "gosym: bad -param", kv)
			os.Exit(3)
		}
		cfg.Params[kv[:i]] = v
	}
	for _, kv := range stubs {
		i := strings.LastIndexByte(kv, '=')
		if i < 0 {
			fmt.Fprintln(os.Stderr, "gosym: bad -stub", kv)
			os.Exit(3)
		}
		sf := target.Func(kv[i+1:])
		if sf == nil {
			fmt.Fprintln(os.Stderr, "gosym: stub function not found:", kv[i+1:])
			os.Exit(3)
		}
		if cfg.Stubs == nil {
			cfg.Stubs = map[string]*ssa.Function{}
		}
		cfg.Stubs[kv[:i]] = sf
	}
	for _, k := range strings.Split(*known, ",") {
		if k != "" {
			cfg.Known[k] = true
		}
	}
	if *concrete != "" {
		b, err := os.ReadFile(*concrete)
		if err != nil {
			fmt.Fprintln(os.Stderr, "gosym:", err)
			os.Exit(3)
		}
		var rf struct {
			Inputs map[string]replayInput `json:"inputs"`
		}
		if err := json.Unmarshal(b, &rf); err != nil {
			fmt.Fprintln(os.Stderr, "gosym:", err)
			os.Exit(3)
		}
		cfg.Concrete = rf.Inputs
		if cfg.Concrete == nil {
			cfg.Concrete = map[string]replayInput{}
		}
		cfg.Workers = 1
	}
	if *concretes != "" {
		b, err := os.ReadFile(*concretes)
		if err != nil {
			fmt.Fprintln(os.Stderr, "gosym:", err)
			os.Exit(3)
		}
		var vf struct {
			Vectors []map[string]replayInput `json:"vectors"`
		}
		if err := json.Unmarshal(b, &vf); err != nil {
			fmt.Fprintln(os.Stderr, "gosym:", err)
			os.Exit(3)
		}
		var outcomes []string
		for _, vec := range vf.Vectors {
			c := cfg
			c.Concrete = vec
			if c.Concrete == nil {
				c.Concrete = map[string]replayInput{}
			}
			c.Workers = 1
			c.CrossSolver = ""
			x := &Explorer{cfg: c, prog: prog, harness: hf, initPkgs: []*ssa.Package{target}}
			res, err := x.Run()
			out := "error"
			switch {
			case err != nil:
				out = "engine-error: " + err.Error()
			case res.Stats.Paths != 1:
				out = "forked" // residual nondeterminism (uninterpreted functions): not comparable
			case len(res.Violations) > 0 && res.Violations[0].Kind == "panic":
				out = "panic"
			case len(res.Violations) > 0:
				out = "assert:" + res.Violations[0].Label
			case res.Stats.PathEnds["done"] == 1:
				out = "ok"
			case res.Stats.PathEnds["assume"] == 1:
				out = "assume"
			default:
				out = "unsupported"
			}
			outcomes = append(outcomes, out)
		}
		if *jsonOut != "" {
			writeJSON(*jsonOut, map[string]interface{}{"outcomes": outcomes})
		}
		for i, o := range outcomes {
			fmt.Printf("vector %d: %s\n", i, o)
		}
		return
	}
	x := &Explorer{cfg: cfg, prog: prog, harness: hf, initPkgs: []*ssa.Package{target}}
	res, err := x.Run()
	if err != nil {
		fmt.Fprintln(os.Stderr, "gosym:", err)
		os.Exit(3)
	}
	if *jsonOut != "" {
		if err := writeJSON(*jsonOut, res); err != nil {
			fmt.Fprintln(os.Stderr, "gosym:", err)
			os.Exit(3)
		}
	}
	fmt.Printf("harness=%s paths=%d (done=%d assume=%d panic=%d viol=%d unsup=%d budget=%d) decisions=%d queries=%d (sat=%d unsat=%d unknown=%d) obligations=%d discharged=%d trivial=%d solver=%.2fs wall=%.2fs\n",
		res.Harness, res.Stats.Paths, res.Stats.PathEnds["done"], res.Stats.PathEnds["assume"], res.Stats.PathEnds["panic"], res.Stats.PathEnds["violation"],
		res.Stats.PathEnds["unsupported"], res.Stats.PathEnds["budget"], res.Stats.Decisions, res.Stats.Queries, res.Stats.Sat, res.Stats.Unsat, res.Stats.Unknown,
		res.Stats.Obligations, res.Stats.Discharged, res.Stats.TrivialObl, res.Stats.SolverTimeS, res.WallS)
	for _, m := range res.Inconclusive {
		fmt.Println("INCONCLUSIVE:", m)
	}
	for _, v := range res.Violations {
		fmt.Printf("COUNTEREXAMPLE: kind=%s label=%q msg=%q inputs=%v\n", v.Kind, v.Label, v.Msg, v.Inputs)
	}
	switch {
	case len(res.Violations) > 0:
		os.Exit(1)
	case len(res.Inconclusive) > 0:
		os.Exit(2)
	}
}
