package main

// SSA interpreter over symbolic values. The skeleton (frames, one case per
// instruction kind, call dispatch) follows golang.org/x/tools/go/ssa/interp.

import (
	"fmt"
	"go/constant"
	"go/token"
	"go/types"
	"strings"

	"golang.org/x/tools/go/ssa"
)

// engineError aborts the whole run: a bug or limitation of the machinery.
type engineError struct{ msg string }

// pathEnd terminates the current path.
type pathEnd struct {
	kind string // "assume" | "unsupported" | "budget" | "deadlock" | "done" | "violation"
	msg  string
}

// targetPanic is a Go-level panic of the program under test.
type targetPanic struct {
	v   Value
	msg string
}

func (p targetPanic) String() string {
	if p.msg != "" {
		return p.msg
	}
	switch v := p.v.(type) {
	case Iface:
		if s, ok := v.V.(Str); ok {
			return s.String()
		}
		return fmt.Sprintf("panic(%v)", v.T)
	}
	return "panic"
}

type deferred struct {
	fn   Value
	args []Value
}

type frame struct {
	e         *Engine
	caller    *frame
	fn        *ssa.Function
	block     *ssa.BasicBlock
	prevBlock *ssa.BasicBlock
	env       map[ssa.Value]Value
	locals    []Value
	defers    []deferred
	result    Value
}

func (e *Engine) unsupported(format string, args ...interface{}) {
	panic(pathEnd{kind: "unsupported", msg: fmt.Sprintf(format, args...)})
}

func (fr *frame) get(key ssa.Value) Value {
	switch key := key.(type) {
	case nil:
		return nil
	case *ssa.Function:
		return key
	case *ssa.Builtin:
		return key
	case *ssa.Const:
		return fr.e.constValue(key)
	case *ssa.Global:
		return fr.e.globalAddr(key)
	}
	if r, ok := fr.env[key]; ok {
		return r
	}
	panic(engineError{fmt.Sprintf("get: no value for %T: %v in %v", key, key.Name(), fr.fn)})
}

func (e *Engine) globalAddr(g *ssa.Global) *Value {
	if a, ok := e.globals[g]; ok {
		return a
	}
	cell := e.zero(derefType(g.Type()))
	a := &cell
	e.globals[g] = a
	// lazily run the initializer of the owning package if it is one we interpret
	return a
}

func (e *Engine) constValue(c *ssa.Const) Value {
	t := c.Type()
	if c.Value == nil {
		return e.zero(t)
	}
	if tp, ok := t.(*types.TypeParam); ok {
		panic(engineError{"constant of type parameter type " + tp.String()})
	}
	if b, ok := t.Underlying().(*types.Basic); ok {
		switch {
		case b.Info()&types.IsString != 0:
			if c.Value.Kind() == constant.String {
				return Str{s: constant.StringVal(c.Value)}
			}
			// untyped rune etc converted to string cannot happen here
		case b.Info()&types.IsBoolean != 0:
			return e.tt.Bool(constant.BoolVal(c.Value))
		case b.Info()&types.IsInteger != 0:
			s, _ := sortOfBasic(b)
			if isSignedBasic(b) || b.Kind() == types.UntypedInt || b.Kind() == types.UntypedRune {
				return e.tt.IntConst(c.Int64(), s.W)
			}
			return e.tt.BVConst(c.Uint64(), s.W)
		case b.Info()&types.IsFloat != 0:
			s, _ := sortOfBasic(b)
			if s.K == SF32 {
				return e.tt.F32Const(float32(c.Float64()))
			}
			return e.tt.F64Const(c.Float64())
		}
	}
	panic(engineError{fmt.Sprintf("constValue: unsupported constant %v : %v", c, t)})
}

// ---- memory ----

func (e *Engine) load(t types.Type, addr *Value) Value {
	if addr == nil {
		panic(targetPanic{msg: "runtime error: invalid memory address or nil pointer dereference"})
	}
	return copyVal(*addr)
}

func (e *Engine) store(addr *Value, v Value) {
	if addr == nil {
		panic(targetPanic{msg: "runtime error: invalid memory address or nil pointer dereference"})
	}
	storeInto(addr, v)
}

// storeInto assigns element-wise into existing struct/array storage so that addresses of
// fields and elements taken earlier stay valid (as in the reference interpreter).
func storeInto(addr *Value, v Value) {
	switch rhs := v.(type) {
	case Struct:
		if lhs, ok := (*addr).(Struct); ok && len(lhs) == len(rhs) {
			for i := range lhs {
				storeInto(&lhs[i], rhs[i])
			}
			return
		}
	case Array:
		if lhs, ok := (*addr).(Array); ok && len(lhs) == len(rhs) {
			for i := range lhs {
				storeInto(&lhs[i], rhs[i])
			}
			return
		}
	}
	*addr = copyVal(v)
}

// concreteInt returns the concrete value of an integer term, forking over
// candidate values in [lo,hi] when it is symbolic.
func (e *Engine) concreteInt(t *Term, signed bool, lo, hi int64, what string) int64 {
	if t.IsConst() {
		if signed {
			return t.Int()
		}
		return int64(t.BV)
	}
	if hi-lo > 4096 {
		e.unsupported("symbolic %s with unbounded range", what)
	}
	w := t.Sort.W
	for v := lo; v <= hi; v++ {
		if e.decide(e.tt.Eq(t, e.tt.IntConst(v, w))) {
			return v
		}
	}
	// value outside [lo,hi]
	return hi + 1
}

// ---- instructions ----

func (e *Engine) visitInstr(fr *frame, instr ssa.Instruction) bool {
	e.steps++
	if e.steps > e.cfg.MaxSteps {
		panic(pathEnd{kind: "budget", msg: fmt.Sprintf("instruction budget %d exhausted in %v", e.cfg.MaxSteps, fr.fn)})
	}
	switch instr := instr.(type) {
	case *ssa.DebugRef:
	case *ssa.UnOp:
		fr.env[instr] = e.unop(fr, instr, fr.get(instr.X))
	case *ssa.BinOp:
		fr.env[instr] = e.binop(instr.Op, instr.X.Type(), fr.get(instr.X), fr.get(instr.Y))
	case *ssa.Call:
		fn, args := e.prepareCall(fr, &instr.Call)
		fr.env[instr] = e.call(fr, instr.Pos(), fn, args)
	case *ssa.ChangeInterface:
		fr.env[instr] = fr.get(instr.X)
	case *ssa.ChangeType:
		fr.env[instr] = fr.get(instr.X)
	case *ssa.Convert:
		fr.env[instr] = e.conv(instr.Type(), instr.X.Type(), fr.get(instr.X))
	case *ssa.MultiConvert:
		fr.env[instr] = e.conv(instr.Type(), instr.X.Type(), fr.get(instr.X))
	case *ssa.SliceToArrayPointer:
		e.unsupported("SliceToArrayPointer")
	case *ssa.MakeInterface:
		fr.env[instr] = Iface{T: instr.X.Type(), V: fr.get(instr.X)}
	case *ssa.Extract:
		fr.env[instr] = fr.get(instr.Tuple).(Tuple)[instr.Index]
	case *ssa.Slice:
		fr.env[instr] = e.sliceOp(instr, fr.get(instr.X), fr.get(instr.Low), fr.get(instr.High), fr.get(instr.Max))
	case *ssa.Return:
		switch len(instr.Results) {
		case 0:
		case 1:
			fr.result = fr.get(instr.Results[0])
		default:
			res := make(Tuple, len(instr.Results))
			for i, r := range instr.Results {
				res[i] = fr.get(r)
			}
			fr.result = res
		}
		fr.block = nil
		return true
	case *ssa.RunDefers:
		for len(fr.defers) > 0 {
			d := fr.defers[len(fr.defers)-1]
			fr.defers = fr.defers[:len(fr.defers)-1]
			e.call(fr, token.NoPos, d.fn, d.args)
		}
	case *ssa.Panic:
		panic(targetPanic{v: fr.get(instr.X)})
	case *ssa.Send:
		e.chanSend(fr.get(instr.Chan).(*Chan), fr.get(instr.X))
	case *ssa.Store:
		e.store(fr.get(instr.Addr).(*Value), fr.get(instr.Val))
	case *ssa.If:
		succ := 1
		if e.decide(fr.get(instr.Cond).(*Term)) {
			succ = 0
		}
		fr.prevBlock, fr.block = fr.block, fr.block.Succs[succ]
		return true
	case *ssa.Jump:
		fr.prevBlock, fr.block = fr.block, fr.block.Succs[0]
		return true
	case *ssa.Defer:
		fn, args := e.prepareCall(fr, &instr.Call)
		fr.defers = append(fr.defers, deferred{fn, args})
	case *ssa.Go:
		fn, args := e.prepareCall(fr, &instr.Call)
		e.goroutines = append(e.goroutines, deferred{fn, args})
	case *ssa.MakeChan:
		n := e.concreteInt(fr.get(instr.Size).(*Term), true, 0, 8, "chan size")
		fr.env[instr] = &Chan{cap: int(n)}
	case *ssa.Alloc:
		var addr *Value
		if instr.Heap {
			addr = new(Value)
			fr.env[instr] = addr
		} else {
			addr = fr.env[instr].(*Value)
		}
		*addr = e.zero(derefType(instr.Type()))
	case *ssa.MakeSlice:
		ln := e.concreteInt(fr.get(instr.Len).(*Term), true, 0, 64, "make len")
		cp := e.concreteInt(fr.get(instr.Cap).(*Term), true, 0, 64, "make cap")
		if ln < 0 || cp < ln {
			panic(targetPanic{msg: "runtime error: makeslice: len out of range"})
		}
		if cp > 1<<20 {
			e.unsupported("make of %d elements", cp)
		}
		s := make(Slice, cp)
		tElt := instr.Type().Underlying().(*types.Slice).Elem()
		for i := range s {
			s[i] = e.zero(tElt)
		}
		fr.env[instr] = s[:ln]
	case *ssa.MakeMap:
		fr.env[instr] = &Map{kt: instr.Type().Underlying().(*types.Map).Key()}
	case *ssa.Range:
		fr.env[instr] = e.rangeIter(fr.get(instr.X), instr.X.Type())
	case *ssa.Next:
		fr.env[instr] = e.iterNext(fr.get(instr.Iter), instr)
	case *ssa.FieldAddr:
		p := fr.get(instr.X).(*Value)
		if p == nil {
			panic(targetPanic{msg: "runtime error: invalid memory address or nil pointer dereference"})
		}
		fr.env[instr] = &(*p).(Struct)[instr.Field]
	case *ssa.Field:
		fr.env[instr] = fr.get(instr.X).(Struct)[instr.Field]
	case *ssa.IndexAddr:
		x := fr.get(instr.X)
		idx := fr.get(instr.Index).(*Term)
		switch x := x.(type) {
		case Slice:
			i := e.index(idx, isSigned(instr.Index.Type()), len(x))
			fr.env[instr] = &x[i]
		case *Value:
			if x == nil {
				panic(targetPanic{msg: "runtime error: invalid memory address or nil pointer dereference"})
			}
			a := (*x).(Array)
			i := e.index(idx, isSigned(instr.Index.Type()), len(a))
			fr.env[instr] = &a[i]
		default:
			panic(engineError{fmt.Sprintf("IndexAddr on %T", x)})
		}
	case *ssa.Index:
		x := fr.get(instr.X)
		idx := fr.get(instr.Index).(*Term)
		switch x := x.(type) {
		case Array:
			i := e.index(idx, isSigned(instr.Index.Type()), len(x))
			fr.env[instr] = copyVal(x[i])
		case Str:
			i := e.index(idx, isSigned(instr.Index.Type()), x.Len())
			fr.env[instr] = e.strByte(x, i)
		default:
			panic(engineError{fmt.Sprintf("Index on %T", x)})
		}
	case *ssa.Lookup:
		fr.env[instr] = e.lookup(instr, fr.get(instr.X), fr.get(instr.Index))
	case *ssa.MapUpdate:
		m := fr.get(instr.Map).(*Map)
		if m == nil {
			panic(targetPanic{msg: "assignment to entry in nil map"})
		}
		e.mapInsert(m, fr.get(instr.Key), fr.get(instr.Value))
	case *ssa.TypeAssert:
		fr.env[instr] = e.typeAssert(instr, fr.get(instr.X).(Iface))
	case *ssa.MakeClosure:
		bindings := make([]Value, len(instr.Bindings))
		for i, b := range instr.Bindings {
			bindings[i] = fr.get(b)
		}
		fr.env[instr] = &Closure{instr.Fn.(*ssa.Function), bindings}
	case *ssa.Select:
		fr.env[instr] = e.selectOp(fr, instr)
	default:
		panic(engineError{fmt.Sprintf("unexpected instruction: %T", instr)})
	}
	return false
}

// index resolves an index term against a concrete length, forking when symbolic.
func (e *Engine) index(idx *Term, signed bool, n int) int {
	if idx.IsConst() {
		var v int64
		if signed {
			v = idx.Int()
		} else {
			v = int64(idx.BV)
			if idx.BV > 1<<62 {
				v = -1
			}
		}
		if v < 0 || v >= int64(n) {
			panic(targetPanic{msg: fmt.Sprintf("runtime error: index out of range [%d] with length %d", v, n)})
		}
		return int(v)
	}
	w := idx.Sort.W
	for i := 0; i < n; i++ {
		if e.decide(e.tt.Eq(idx, e.tt.IntConst(int64(i), w))) {
			return i
		}
	}
	panic(targetPanic{msg: fmt.Sprintf("runtime error: index out of range [symbolic] with length %d", n)})
}

func (e *Engine) sliceOp(instr *ssa.Slice, x Value, lo, hi, max Value) Value {
	var length, capacity int
	switch x := x.(type) {
	case Str:
		length = x.Len()
		capacity = length
	case Slice:
		length = len(x)
		capacity = cap(x)
	case *Value:
		if x == nil {
			panic(targetPanic{msg: "runtime error: invalid memory address or nil pointer dereference"})
		}
		length = len((*x).(Array))
		capacity = length
	default:
		panic(engineError{fmt.Sprintf("slice of %T", x)})
	}
	l := 0
	h := length
	m := capacity
	bound := func(v Value, dflt int, what string) int {
		if v == nil {
			return dflt
		}
		return int(e.concreteInt(v.(*Term), true, 0, int64(capacity), what))
	}
	if _, isStr := x.(Str); isStr {
		l = bound(lo, 0, "slice low")
		h = bound(hi, length, "slice high")
		if l < 0 || h < l || h > length {
			panic(targetPanic{msg: fmt.Sprintf("runtime error: slice bounds out of range [%d:%d] with length %d", l, h, length)})
		}
		return e.strSlice(x.(Str), l, h)
	}
	l = bound(lo, 0, "slice low")
	h = bound(hi, length, "slice high")
	m = bound(max, capacity, "slice max")
	if l < 0 || h < l || m < h || m > capacity {
		panic(targetPanic{msg: fmt.Sprintf("runtime error: slice bounds out of range [%d:%d:%d] with capacity %d", l, h, m, capacity)})
	}
	switch x := x.(type) {
	case Slice:
		if x == nil {
			return Slice(nil)
		}
		return x[l:h:m]
	case *Value:
		return Slice((*x).(Array))[l:h:m]
	}
	panic("unreachable")
}

func (e *Engine) typeAssert(instr *ssa.TypeAssert, itf Iface) Value {
	var ok bool
	var v Value
	if _, isIface := instr.AssertedType.Underlying().(*types.Interface); isIface {
		v = itf
		if itf.T != nil {
			ok = types.AssignableTo(itf.T, instr.AssertedType) || e.implements(itf.T, instr.AssertedType)
		}
	} else {
		if itf.T != nil && types.Identical(itf.T, instr.AssertedType) {
			v = itf.V
			ok = true
		}
	}
	if !ok {
		if instr.CommaOk {
			if _, isIface := instr.AssertedType.Underlying().(*types.Interface); isIface {
				v = Iface{}
			} else {
				v = e.zero(instr.AssertedType)
			}
			return Tuple{v, e.tt.False}
		}
		tn := "nil"
		if itf.T != nil {
			tn = itf.T.String()
		}
		panic(targetPanic{msg: fmt.Sprintf("interface conversion: interface is %s, not %s", tn, instr.AssertedType)})
	}
	if instr.CommaOk {
		return Tuple{v, e.tt.True}
	}
	return v
}

func (e *Engine) implements(t types.Type, iface types.Type) bool {
	it, ok := iface.Underlying().(*types.Interface)
	if !ok {
		return false
	}
	return types.Implements(t, it)
}

// ---- calls ----

func (e *Engine) prepareCall(fr *frame, call *ssa.CallCommon) (fn Value, args []Value) {
	v := fr.get(call.Value)
	if call.Method == nil {
		fn = v
	} else {
		recv := v.(Iface)
		if recv.T == nil {
			panic(targetPanic{msg: "runtime error: invalid memory address or nil pointer dereference (method on nil interface)"})
		}
		f := e.lookupMethod(recv.T, call.Method)
		if f == nil {
			panic(engineError{fmt.Sprintf("method set for dynamic type %v does not contain %s", recv.T, call.Method)})
		}
		fn = f
		args = append(args, recv.V)
	}
	for _, arg := range call.Args {
		args = append(args, fr.get(arg))
	}
	return
}

func (e *Engine) lookupMethod(t types.Type, meth *types.Func) *ssa.Function {
	return e.prog.LookupMethod(t, meth.Pkg(), meth.Name())
}

func (e *Engine) call(caller *frame, pos token.Pos, fn Value, args []Value) Value {
	switch fn := fn.(type) {
	case *ssa.Function:
		if fn == nil {
			panic(targetPanic{msg: "call of nil function"})
		}
		return e.callSSA(caller, fn, args, nil)
	case *Closure:
		if fn == nil {
			panic(targetPanic{msg: "runtime error: invalid memory address or nil pointer dereference (call of nil func)"})
		}
		return e.callSSA(caller, fn.Fn, args, fn.Env)
	case *ssa.Builtin:
		return e.callBuiltin(caller, fn, args)
	case *IntrinsicFn:
		return fn.f(e, caller, args)
	}
	panic(engineError{fmt.Sprintf("cannot call %T", fn)})
}

// notHandled is returned by an intrinsic that wants the real SSA body to run instead.
type notHandledT struct{}

var notHandled = &notHandledT{}

// IntrinsicFn lets the engine hand a native function around as a func value.
type IntrinsicFn struct {
	name string
	f    func(e *Engine, caller *frame, args []Value) Value
}

func (e *Engine) callSSA(caller *frame, fn *ssa.Function, args []Value, env []Value) Value {
	name := fn.String()
	if len(e.cfg.Stubs) > 0 {
		if target, ok := e.cfg.Stubs[name]; ok && (caller == nil || caller.fn != target) {
			e.noteStub("harness stub for " + name)
			return e.callSSA(caller, target, args, nil)
		}
	}
	if in := e.findIntrinsic(fn, name); in != nil {
		if r := in(e, caller, fn, args); r != Value(notHandled) {
			e.noteStub(name)
			return r
		}
		// the intrinsic declined (e.g. a *rand.Rand over a harness-supplied source): run the real body
	}
	if !e.mayExecute(fn) {
		e.unsupported("call to %s is not modelled", name)
	}
	if fn.Blocks == nil {
		e.unsupported("no code for function %s", name)
	}
	if fn.TypeParams().Len() > 0 && len(fn.TypeArgs()) == 0 {
		panic(engineError{"uninstantiated generic " + name})
	}
	e.depth++
	if e.depth > e.cfg.MaxDepth {
		panic(pathEnd{kind: "budget", msg: fmt.Sprintf("recursion depth %d exceeded at %s", e.cfg.MaxDepth, name)})
	}
	e.noteFunc(fn, name)
	fr := &frame{e: e, caller: caller, fn: fn}
	fr.env = make(map[ssa.Value]Value, 16)
	fr.block = fn.Blocks[0]
	fr.locals = make([]Value, len(fn.Locals))
	for i, l := range fn.Locals {
		fr.locals[i] = e.zero(derefType(l.Type()))
		fr.env[l] = &fr.locals[i]
	}
	for i, p := range fn.Params {
		fr.env[p] = args[i]
	}
	for i, fv := range fn.FreeVars {
		fr.env[fv] = env[i]
	}
	for fr.block != nil {
		e.runBlock(fr)
	}
	e.depth--
	return fr.result
}

func (e *Engine) runBlock(fr *frame) {
	block := fr.block
	// phis: parallel assignment
	n := 0
	for _, instr := range block.Instrs {
		if _, ok := instr.(*ssa.Phi); !ok {
			break
		}
		n++
	}
	if n > 0 {
		predIndex := -1
		for i, p := range block.Preds {
			if p == fr.prevBlock {
				predIndex = i
				break
			}
		}
		tmp := make([]Value, n)
		for i := 0; i < n; i++ {
			tmp[i] = fr.get(block.Instrs[i].(*ssa.Phi).Edges[predIndex])
		}
		for i := 0; i < n; i++ {
			fr.env[block.Instrs[i].(*ssa.Phi)] = tmp[i]
		}
	}
	for _, instr := range block.Instrs[n:] {
		if e.cfg.Trace {
			if v, ok := instr.(ssa.Value); ok {
				fmt.Fprintf(e.traceOut, "%s\t%s = %s\n", fr.fn.Name(), v.Name(), instr)
			} else {
				fmt.Fprintf(e.traceOut, "%s\t%s\n", fr.fn.Name(), instr)
			}
		}
		if e.visitInstr(fr, instr) {
			return
		}
	}
}

// mayExecute decides whether the real SSA body of fn is run (DESIGN 3.6).
func (e *Engine) mayExecute(fn *ssa.Function) bool {
	// bound-method closures, thunks and wrappers only forward to a method, which is checked when it is called
	if strings.HasPrefix(fn.Synthetic, "bound method wrapper") || strings.HasPrefix(fn.Synthetic, "thunk for") || strings.HasPrefix(fn.Synthetic, "wrapper for") {
		return true
	}
	pkg := fn.Pkg
	if pkg == nil {
		// synthetic: wrappers, bound methods, instantiations
		if o := fn.Origin(); o != nil && o.Pkg != nil {
			pkg = o.Pkg
		} else if fn.Object() != nil && fn.Object().Pkg() != nil {
			return e.execPkg(fn.Object().Pkg().Path())
		} else if fn.Parent() != nil {
			return e.mayExecute(fn.Parent())
		} else {
			return true // wrapper/thunk around something that is checked when called
		}
	}
	return e.execPkg(pkg.Pkg.Path())
}

var execPkgPrefixes = []string{
	"github.com/remieven/ysgo",
	"verifmodels",
}

var execPkgs = map[string]bool{
	"errors":                        true,
	"internal/stringslite":          true,
	"maps":                          true,
	"iter":                          true,
	"slices":                        true,
	"cmp":                           true,
	"sort":                          true,
	"strings":                       true,
	"bytes":                         true,
	"strconv":                       true,
	"unicode/utf8":                  true,
	"unicode/utf16":                 true,
	"unicode":                       true,
	"io":                            true,
	"math":                          true,
	"math/bits":                     true,
	"math/rand":                     true,
	"fmt":                           false,
	"github.com/antlr4-go/antlr/v4": true,
}

func (e *Engine) execPkg(path string) bool {
	for _, p := range execPkgPrefixes {
		if strings.HasPrefix(path, p) {
			return true
		}
	}
	return execPkgs[path]
}

// ---- builtins ----

func (e *Engine) callBuiltin(caller *frame, fn *ssa.Builtin, args []Value) Value {
	switch fn.Name() {
	case "append":
		if len(args) == 1 {
			return args[0]
		}
		dst := args[0].(Slice)
		if s, ok := args[1].(Str); ok {
			for i := 0; i < s.Len(); i++ {
				dst = append(dst, e.strByte(s, i))
			}
			return dst
		}
		src := args[1].(Slice)
		for _, v := range src {
			dst = append(dst, copyVal(v))
		}
		if dst == nil && src != nil {
			// append(nil, empty...) stays nil in Go
			return Slice(nil)
		}
		return dst
	case "copy":
		dst := args[0].(Slice)
		if s, ok := args[1].(Str); ok {
			n := len(dst)
			if s.Len() < n {
				n = s.Len()
			}
			for i := 0; i < n; i++ {
				dst[i] = e.strByte(s, i)
			}
			return e.tt.IntConst(int64(n), 64)
		}
		src := args[1].(Slice)
		n := len(dst)
		if len(src) < n {
			n = len(src)
		}
		// handle overlap like memmove
		tmp := make([]Value, n)
		for i := 0; i < n; i++ {
			tmp[i] = copyVal(src[i])
		}
		copy(dst, tmp)
		return e.tt.IntConst(int64(n), 64)
	case "close":
		c := args[0].(*Chan)
		if c == nil || c.closed {
			panic(targetPanic{msg: "close of nil or closed channel"})
		}
		c.closed = true
		return nil
	case "delete":
		m := args[0].(*Map)
		if m != nil {
			e.mapDelete(m, args[1])
		}
		return nil
	case "print", "println":
		return nil
	case "len":
		switch x := args[0].(type) {
		case Str:
			return e.tt.IntConst(int64(x.Len()), 64)
		case Array:
			return e.tt.IntConst(int64(len(x)), 64)
		case *Value:
			return e.tt.IntConst(int64(len((*x).(Array))), 64)
		case Slice:
			return e.tt.IntConst(int64(len(x)), 64)
		case *Map:
			if x == nil {
				return e.tt.IntConst(0, 64)
			}
			return e.tt.IntConst(int64(len(x.entries)), 64)
		case *Chan:
			if x == nil {
				return e.tt.IntConst(0, 64)
			}
			return e.tt.IntConst(int64(len(x.buf)), 64)
		}
		panic(engineError{fmt.Sprintf("len of %T", args[0])})
	case "cap":
		switch x := args[0].(type) {
		case Array:
			return e.tt.IntConst(int64(len(x)), 64)
		case *Value:
			return e.tt.IntConst(int64(len((*x).(Array))), 64)
		case Slice:
			return e.tt.IntConst(int64(cap(x)), 64)
		case *Chan:
			if x == nil {
				return e.tt.IntConst(0, 64)
			}
			return e.tt.IntConst(int64(x.cap), 64)
		}
		panic(engineError{fmt.Sprintf("cap of %T", args[0])})
	case "min", "max":
		isMin := fn.Name() == "min"
		sig := fn.Type().(*types.Signature)
		t := sig.Params().At(0).Type()
		acc := args[0]
		for _, a := range args[1:] {
			var lt *Term
			if isMin {
				lt = e.binop(token.LSS, t, a, acc).(*Term)
			} else {
				lt = e.binop(token.GTR, t, a, acc).(*Term)
			}
			if s, ok := acc.(Str); ok {
				if e.decide(lt) {
					acc = a
				} else {
					acc = s
				}
			} else {
				acc = e.tt.Ite(lt, a.(*Term), acc.(*Term))
			}
		}
		return acc
	case "clear":
		switch x := args[0].(type) {
		case *Map:
			if x != nil {
				x.entries = nil
			}
		case Slice:
			if len(x) > 0 {
				st, ok := fn.Type().(*types.Signature).Params().At(0).Type().Underlying().(*types.Slice)
				if !ok {
					e.unsupported("clear of slice of unknown element type")
				}
				for i := range x {
					x[i] = e.zero(st.Elem())
				}
			}
		}
		return nil
	case "recover":
		return Iface{}
	case "ssa:wrapnilchk":
		recv := args[0]
		if p, ok := recv.(*Value); ok && p == nil {
			panic(targetPanic{msg: "value method called using nil pointer"})
		}
		return recv
	case "panic":
		panic(targetPanic{v: args[0]})
	}
	panic(engineError{"unknown built-in: " + fn.Name()})
}
