package main

import (
	"golang.org/x/tools/go/ssa"
)

func registerMoreIntrinsics() {}

func (e *Engine) parseFloat(fn *ssa.Function, s Str, bitSize int64) Value {
	e.unsupported("strconv.ParseFloat not modelled yet")
	return nil
}
