package main

// More intrinsics: math/rand and time (contract stubs), package strings (exact
// byte-level models written against the engine's decision primitive), a small regexp
// matcher, strconv.ParseFloat.

import (
	"fmt"
	"go/types"
	"math"
	"regexp"
	"regexp/syntax"
	"strconv"
	"unicode/utf8"

	"golang.org/x/tools/go/ssa"
)

type RandState struct {
	seed   *Term
	calls  int
	global bool
	id     int
}

type RegexpObj struct {
	pattern string
	re      *syntax.Regexp
}

func registerMoreIntrinsics() {
	registerReflect()
	defer registerLibraryModels()
	I := stdIntrinsics

	// ---------------- math/rand: contract stubs ----------------
	I["math/rand.NewSource"] = func(e *Engine, caller *frame, fn *ssa.Function, args []Value) Value {
		e.randCtr++
		st := &RandState{seed: args[0].(*Term), id: e.randCtr}
		cell := Value(st)
		return Iface{T: types.NewPointer(fn.Pkg.Type("rngSource").Type()), V: &cell}
	}
	I["math/rand.New"] = func(e *Engine, caller *frame, fn *ssa.Function, args []Value) Value {
		src := args[0].(Iface)
		if src.T == nil {
			panic(targetPanic{msg: "rand.New(nil)"})
		}
		p, ok := src.V.(*Value)
		if ok && p != nil {
			if _, ok := (*p).(*RandState); ok {
				return p
			}
		}
		// a harness-supplied Source: the real math/rand code runs on it
		return notHandled
	}
	// at most RANDDRAWS (default 8) draws from one generator on a path: longer rejection loops are outside the
	// bound (the path is dropped, the bound is reported)
	draw := func(e *Engine, st *RandState) {
		max := int64(8)
		if v, ok := e.cfg.Params["RANDDRAWS"]; ok {
			max = v
		}
		e.x.mu.Lock()
		e.x.bounds["rand.draws.per.generator"] = max
		e.x.mu.Unlock()
		if int64(st.calls) >= max {
			panic(pathEnd{kind: "assume", msg: "more draws from one generator than the bound"})
		}
		st.calls++
	}
	randState := func(e *Engine, v Value) *RandState {
		p, ok := v.(*Value)
		if !ok || p == nil {
			panic(targetPanic{msg: "runtime error: invalid memory address or nil pointer dereference (nil *rand.Rand)"})
		}
		st, ok := (*p).(*RandState)
		if !ok {
			return nil // a real *rand.Rand over a harness-supplied source
		}
		return st
	}
	I["(*math/rand.Rand).Intn"] = func(e *Engine, caller *frame, fn *ssa.Function, args []Value) Value {
		st := randState(e, args[0])
		if st == nil {
			return notHandled
		}
		n := args[1].(*Term)
		if e.decide(e.tt.SLe(n, e.tt.IntConst(0, 64))) {
			panic(targetPanic{msg: "invalid argument to Intn"})
		}
		draw(e, st)
		r := e.tt.App("rand.Intn", BVSort(64), st.seed, e.tt.IntConst(int64(st.calls), 64), n)
		e.assume(e.tt.And(e.tt.SLe(e.tt.IntConst(0, 64), r), e.tt.SLt(r, n)))
		e.randLog = append(e.randLog, randCall{st.id, "Intn", n, r})
		return r
	}
	I["(*math/rand.Rand).Float64"] = func(e *Engine, caller *frame, fn *ssa.Function, args []Value) Value {
		st := randState(e, args[0])
		if st == nil {
			return notHandled
		}
		draw(e, st)
		r := e.tt.App("rand.Float64", F64Sort, st.seed, e.tt.IntConst(int64(st.calls), 64))
		e.assume(e.tt.And(e.tt.FLe(e.tt.F64Const(0), r), e.tt.FLt(r, e.tt.F64Const(1))))
		e.randLog = append(e.randLog, randCall{st.id, "Float64", nil, r})
		return r
	}
	I["(*math/rand.Rand).Int63"] = func(e *Engine, caller *frame, fn *ssa.Function, args []Value) Value {
		st := randState(e, args[0])
		if st == nil {
			return notHandled
		}
		draw(e, st)
		r := e.tt.App("rand.Int63", BVSort(64), st.seed, e.tt.IntConst(int64(st.calls), 64))
		e.assume(e.tt.SLe(e.tt.IntConst(0, 64), r))
		return r
	}
	I["(*math/rand.rngSource).Int63"] = I["(*math/rand.Rand).Int63"]
	// the bounded draws, by contract: panic iff n <= 0, otherwise a value in [0,n) that is an uninterpreted
	// function of (seed, call index, n)
	bounded := func(method string, w int) intrinsic {
		return func(e *Engine, caller *frame, fn *ssa.Function, args []Value) Value {
			st := randState(e, args[0])
			if st == nil {
				return notHandled
			}
			n := args[1].(*Term)
			if e.decide(e.tt.SLe(n, e.tt.IntConst(0, w))) {
				panic(targetPanic{msg: "invalid argument to " + method})
			}
			draw(e, st)
			r := e.tt.App("rand."+method, BVSort(w), st.seed, e.tt.IntConst(int64(st.calls), 64), n)
			e.assume(e.tt.And(e.tt.SLe(e.tt.IntConst(0, w), r), e.tt.SLt(r, n)))
			return r
		}
	}
	I["(*math/rand.Rand).Int31n"] = bounded("Int31n", 32)
	I["(*math/rand.Rand).Int63n"] = bounded("Int63n", 64)
	nonneg := func(method string, w int) intrinsic {
		return func(e *Engine, caller *frame, fn *ssa.Function, args []Value) Value {
			st := randState(e, args[0])
			if st == nil {
				return notHandled
			}
			draw(e, st)
			r := e.tt.App("rand."+method, BVSort(w), st.seed, e.tt.IntConst(int64(st.calls), 64))
			e.assume(e.tt.SLe(e.tt.IntConst(0, w), r))
			return r
		}
	}
	I["(*math/rand.Rand).Int31"] = nonneg("Int31", 32)
	I["(*math/rand.Rand).Int"] = nonneg("Int", 64)
	envI63 := func(what string) intrinsic {
		return func(e *Engine, caller *frame, fn *ssa.Function, args []Value) Value {
			e.envCtr++
			in := e.input(fmt.Sprintf("env.%s.%d", what, e.envCtr), "int", BVSort(64))
			e.assume(e.tt.SLe(e.tt.IntConst(0, 64), in.t))
			return in.t
		}
	}
	I["math/rand.Int63"] = envI63("rand.Int63")
	I["math/rand.Int"] = envI63("rand.Int")
	I["math/rand.Intn"] = func(e *Engine, caller *frame, fn *ssa.Function, args []Value) Value {
		n := args[0].(*Term)
		if e.decide(e.tt.SLe(n, e.tt.IntConst(0, 64))) {
			panic(targetPanic{msg: "invalid argument to Intn"})
		}
		e.envCtr++
		in := e.input(fmt.Sprintf("env.rand.Intn.%d", e.envCtr), "int", BVSort(64))
		e.assume(e.tt.And(e.tt.SLe(e.tt.IntConst(0, 64), in.t), e.tt.SLt(in.t, n)))
		return in.t
	}
	I["math/rand.Float64"] = func(e *Engine, caller *frame, fn *ssa.Function, args []Value) Value {
		e.envCtr++
		in := e.input(fmt.Sprintf("env.rand.Float64.%d", e.envCtr), "f64", F64Sort)
		e.assume(e.tt.And(e.tt.FLe(e.tt.F64Const(0), in.t), e.tt.FLt(in.t, e.tt.F64Const(1))))
		return in.t
	}

	// ---------------- time ----------------
	I["time.Now"] = func(e *Engine, caller *frame, fn *ssa.Function, args []Value) Value {
		e.envCtr++
		in := e.input(fmt.Sprintf("env.time.Now.%d", e.envCtr), "int", BVSort(64))
		return TimeVal{ns: in.t}
	}
	I["(time.Time).Unix"] = func(e *Engine, caller *frame, fn *ssa.Function, args []Value) Value {
		return args[0].(TimeVal).ns
	}
	I["(time.Time).UnixNano"] = I["(time.Time).Unix"]

	// ---------------- strings ----------------
	I["strings.TrimSpace"] = func(e *Engine, caller *frame, fn *ssa.Function, args []Value) Value {
		s := args[0].(Str)
		if s.IsConcrete() {
			return Str{s: stringsTrimSpace(s.s)}
		}
		b := e.strBytes(s)
		start, end := 0, len(b)
		for start < end {
			r, w := e.decodeRune(b[start:end])
			if !e.decide(e.uniPred("IsSpace", r)) {
				break
			}
			start += w
		}
		for end > start {
			r, w := e.decodeLastRune(b[start:end])
			if !e.decide(e.uniPred("IsSpace", r)) {
				break
			}
			end -= w
		}
		return e.mkStr(b[start:end])
	}
	I["strings.ToLower"] = func(e *Engine, caller *frame, fn *ssa.Function, args []Value) Value {
		s := args[0].(Str)
		if s.IsConcrete() {
			return Str{s: stringsToLower(s.s)}
		}
		b := e.strBytes(s)
		tt := e.tt
		ascii := true
		for _, c := range b {
			if !e.decide(tt.ULt(c, tt.BVConst(0x80, 8))) {
				ascii = false
				break
			}
		}
		if ascii {
			out := make([]*Term, len(b))
			for i, c := range b {
				up := tt.And(tt.ULe(tt.BVConst('A', 8), c), tt.ULe(c, tt.BVConst('Z', 8)))
				out[i] = tt.Ite(up, tt.Add(c, tt.BVConst('a'-'A', 8)), c)
			}
			return e.mkStr(out)
		}
		var out []*Term
		toLower := stdIntrinsics["unicode.ToLower"]
		for i := 0; i < len(b); {
			r, w := e.decodeRune(b[i:])
			i += w
			if w == 1 && r.IsConst() && r.BV == utf8.RuneError {
				out = append(out, tt.BVConst(0xEF, 8), tt.BVConst(0xBF, 8), tt.BVConst(0xBD, 8))
				continue
			}
			r2 := toLower(e, caller, fn, []Value{r}).(*Term)
			out = append(out, e.encodeRune(r2)...)
		}
		return e.mkStr(out)
	}
	I["strings.Count"] = func(e *Engine, caller *frame, fn *ssa.Function, args []Value) Value {
		s, sub := args[0].(Str), args[1].(Str)
		if s.IsConcrete() && sub.IsConcrete() {
			return e.tt.IntConst(int64(stringsCount(s.s, sub.s)), 64)
		}
		if sub.Len() == 0 {
			n := 0
			b := e.strBytes(s)
			for i := 0; i < len(b); {
				_, w := e.decodeRune(b[i:])
				i += w
				n++
			}
			return e.tt.IntConst(int64(n+1), 64)
		}
		n := 0
		for i := 0; i+sub.Len() <= s.Len(); {
			if e.decide(e.strEq(e.strSlice(s, i, i+sub.Len()), sub)) {
				n++
				i += sub.Len()
			} else {
				i++
			}
		}
		return e.tt.IntConst(int64(n), 64)
	}
	I["strings.Index"] = func(e *Engine, caller *frame, fn *ssa.Function, args []Value) Value {
		return e.tt.IntConst(int64(e.strIndex(args[0].(Str), args[1].(Str))), 64)
	}
	I["strings.Contains"] = func(e *Engine, caller *frame, fn *ssa.Function, args []Value) Value {
		return e.tt.Bool(e.strIndex(args[0].(Str), args[1].(Str)) >= 0)
	}
	// IndexRune / IndexByte of a symbolic needle in a concrete ASCII haystack: an ite-chain, no forking
	// (summary of a pure callee: keeps table look-ups like "0123...xyz" from multiplying paths)
	I["strings.IndexRune"] = func(e *Engine, caller *frame, fn *ssa.Function, args []Value) Value {
		s := args[0].(Str)
		r := args[1].(*Term)
		if !s.IsConcrete() || r.IsConst() {
			if s.IsConcrete() && r.IsConst() {
				return e.tt.IntConst(int64(stringsIndexRune(s.s, rune(r.Int()))), 64)
			}
			return notHandled
		}
		for i := 0; i < len(s.s); i++ {
			if s.s[i] >= 0x80 {
				return notHandled
			}
		}
		res := e.tt.IntConst(-1, 64)
		for i := len(s.s) - 1; i >= 0; i-- {
			res = e.tt.Ite(e.tt.Eq(r, e.tt.IntConst(int64(s.s[i]), 32)), e.tt.IntConst(int64(i), 64), res)
		}
		return res
	}
	I["strings.IndexByte"] = func(e *Engine, caller *frame, fn *ssa.Function, args []Value) Value {
		s := args[0].(Str)
		c := args[1].(*Term)
		if s.IsConcrete() && !c.IsConst() {
			res := e.tt.IntConst(-1, 64)
			for i := len(s.s) - 1; i >= 0; i-- {
				res = e.tt.Ite(e.tt.Eq(c, e.tt.BVConst(uint64(s.s[i]), 8)), e.tt.IntConst(int64(i), 64), res)
			}
			return res
		}
		for i := 0; i < s.Len(); i++ {
			if e.decide(e.tt.Eq(e.strByte(s, i), c)) {
				return e.tt.IntConst(int64(i), 64)
			}
		}
		return e.tt.IntConst(-1, 64)
	}
	I["internal/bytealg.IndexByteString"] = I["strings.IndexByte"]
	I["internal/stringslite.IndexByte"] = I["strings.IndexByte"]
	I["internal/stringslite.Index"] = I["strings.Index"]
	I["internal/bytealg.CountString"] = func(e *Engine, caller *frame, fn *ssa.Function, args []Value) Value {
		s := args[0].(Str)
		c := args[1].(*Term)
		n := 0
		for i := 0; i < s.Len(); i++ {
			if e.decide(e.tt.Eq(e.strByte(s, i), c)) {
				n++
			}
		}
		return e.tt.IntConst(int64(n), 64)
	}
	I["strings.ReplaceAll"] = func(e *Engine, caller *frame, fn *ssa.Function, args []Value) Value {
		return e.strReplace(args[0].(Str), args[1].(Str), args[2].(Str), -1)
	}
	I["strings.Replace"] = func(e *Engine, caller *frame, fn *ssa.Function, args []Value) Value {
		return e.strReplace(args[0].(Str), args[1].(Str), args[2].(Str), int(concreteIntArg(e, args[3], "strings.Replace n")))
	}
	I["strings.Split"] = func(e *Engine, caller *frame, fn *ssa.Function, args []Value) Value {
		s, sep := args[0].(Str), args[1].(Str)
		if sep.Len() == 0 {
			e.unsupported("strings.Split with an empty separator")
		}
		out := Slice{}
		start := 0
		i := 0
		for i+sep.Len() <= s.Len() {
			if e.decide(e.strEq(e.strSlice(s, i, i+sep.Len()), sep)) {
				out = append(out, e.strSlice(s, start, i))
				i += sep.Len()
				start = i
			} else {
				i++
			}
		}
		out = append(out, e.strSlice(s, start, s.Len()))
		return out
	}
	I["strings.Fields"] = func(e *Engine, caller *frame, fn *ssa.Function, args []Value) Value {
		s := args[0].(Str)
		b := e.strBytes(s)
		out := Slice{}
		start := -1
		for i := 0; i < len(b); {
			r, w := e.decodeRune(b[i:])
			if e.decide(e.uniPred("IsSpace", r)) {
				if start >= 0 {
					out = append(out, e.mkStr(b[start:i]))
					start = -1
				}
			} else if start < 0 {
				start = i
			}
			i += w
		}
		if start >= 0 {
			out = append(out, e.mkStr(b[start:]))
		}
		return out
	}

	// ---------------- regexp ----------------
	compile := func(e *Engine, pat Str) (Value, error) {
		p := e.concretizeStr(pat)
		if _, err := regexp.Compile(p); err != nil {
			return nil, err
		}
		re, err := syntax.Parse(p, syntax.Perl)
		if err != nil {
			return nil, err
		}
		cell := Value(&RegexpObj{pattern: p, re: re.Simplify()})
		return &cell, nil
	}
	I["regexp.MustCompile"] = func(e *Engine, caller *frame, fn *ssa.Function, args []Value) Value {
		v, err := compile(e, args[0].(Str))
		if err != nil {
			panic(targetPanic{msg: "regexp: Compile: " + err.Error()})
		}
		return v
	}
	I["regexp.Compile"] = func(e *Engine, caller *frame, fn *ssa.Function, args []Value) Value {
		v, err := compile(e, args[0].(Str))
		if err != nil {
			return Tuple{(*Value)(nil), e.mkFmtError(fn, []Value{Str{s: err.Error()}, Slice(nil)})}
		}
		return Tuple{v, Iface{}}
	}
	I["regexp.QuoteMeta"] = func(e *Engine, caller *frame, fn *ssa.Function, args []Value) Value {
		return Str{s: regexp.QuoteMeta(e.concretizeStr(args[0].(Str)))}
	}
	I["(*regexp.Regexp).FindStringIndex"] = func(e *Engine, caller *frame, fn *ssa.Function, args []Value) Value {
		ro := (*args[0].(*Value)).(*RegexpObj)
		s := args[1].(Str)
		lo, hi, ok := e.regexFind(ro, s)
		if !ok {
			return Slice(nil)
		}
		return Slice{e.tt.IntConst(int64(lo), 64), e.tt.IntConst(int64(hi), 64)}
	}
	I["(*regexp.Regexp).MatchString"] = func(e *Engine, caller *frame, fn *ssa.Function, args []Value) Value {
		ro := (*args[0].(*Value)).(*RegexpObj)
		_, _, ok := e.regexFind(ro, args[1].(Str))
		return e.tt.Bool(ok)
	}
}

type TimeVal struct{ ns *Term }

type randCall struct {
	src    int
	method string
	arg    *Term
	res    *Term
}

func (e *Engine) strIndex(s, sub Str) int {
	for i := 0; i+sub.Len() <= s.Len(); i++ {
		if e.decide(e.strEq(e.strSlice(s, i, i+sub.Len()), sub)) {
			return i
		}
	}
	return -1
}

func (e *Engine) strReplace(s, old, nw Str, n int) Str {
	if old.Len() == 0 {
		if s.IsConcrete() && nw.IsConcrete() {
			return Str{s: stringsReplace(s.s, "", nw.s, n)}
		}
		e.unsupported("strings.Replace with an empty old string on symbolic data")
	}
	var out []*Term
	cnt := 0
	i := 0
	for i < s.Len() {
		if (n < 0 || cnt < n) && i+old.Len() <= s.Len() && e.decide(e.strEq(e.strSlice(s, i, i+old.Len()), old)) {
			out = append(out, e.strBytes(nw)...)
			i += old.Len()
			cnt++
		} else {
			out = append(out, e.strByte(s, i))
			i++
		}
	}
	return e.mkStr(out)
}

// ---- regexp matcher over symbolic bytes: leftmost-first backtracking ----

func (e *Engine) regexFind(ro *RegexpObj, s Str) (int, int, bool) {
	b := e.strBytes(s)
	for start := 0; start <= len(b); start++ {
		end := -1
		if e.reMatch(ro.re, b, start, func(p int) bool { end = p; return true }) {
			return start, end, true
		}
	}
	return 0, 0, false
}

func (e *Engine) reMatch(re *syntax.Regexp, b []*Term, pos int, k func(int) bool) bool {
	tt := e.tt
	switch re.Op {
	case syntax.OpEmptyMatch:
		return k(pos)
	case syntax.OpLiteral:
		if re.Flags&syntax.FoldCase != 0 {
			e.unsupported("regexp: case-insensitive literal")
		}
		var lit []byte
		for _, r := range re.Rune {
			if r == utf8.RuneError {
				e.unsupported("regexp: U+FFFD literal")
			}
			lit = utf8.AppendRune(lit, r)
		}
		if pos+len(lit) > len(b) {
			return false
		}
		c := tt.True
		for i, ch := range lit {
			c = tt.And(c, tt.Eq(b[pos+i], tt.BVConst(uint64(ch), 8)))
		}
		if !e.decide(c) {
			return false
		}
		return k(pos + len(lit))
	case syntax.OpCharClass:
		if pos >= len(b) {
			return false
		}
		c := tt.False
		for i := 0; i+1 < len(re.Rune); i += 2 {
			lo, hi := re.Rune[i], re.Rune[i+1]
			if hi >= 0x80 {
				e.unsupported("regexp: non-ASCII character class")
			}
			c = tt.Or(c, tt.And(tt.ULe(tt.BVConst(uint64(lo), 8), b[pos]), tt.ULe(b[pos], tt.BVConst(uint64(hi), 8))))
		}
		if !e.decide(c) {
			return false
		}
		return k(pos + 1)
	case syntax.OpCapture:
		return e.reMatch(re.Sub[0], b, pos, k)
	case syntax.OpConcat:
		var step func(i, p int) bool
		step = func(i, p int) bool {
			if i == len(re.Sub) {
				return k(p)
			}
			return e.reMatch(re.Sub[i], b, p, func(q int) bool { return step(i+1, q) })
		}
		return step(0, pos)
	case syntax.OpAlternate:
		for _, sub := range re.Sub {
			if e.reMatch(sub, b, pos, k) {
				return true
			}
		}
		return false
	case syntax.OpQuest:
		if re.Flags&syntax.NonGreedy != 0 {
			return k(pos) || e.reMatch(re.Sub[0], b, pos, k)
		}
		return e.reMatch(re.Sub[0], b, pos, k) || k(pos)
	case syntax.OpStar, syntax.OpPlus:
		if re.Flags&syntax.NonGreedy != 0 {
			e.unsupported("regexp: non-greedy repetition")
		}
		var loop func(p int, first bool) bool
		loop = func(p int, first bool) bool {
			if e.reMatch(re.Sub[0], b, p, func(q int) bool {
				if q == p {
					return false
				}
				return loop(q, false)
			}) {
				return true
			}
			if first && re.Op == syntax.OpPlus {
				return false
			}
			return k(p)
		}
		return loop(pos, true)
	case syntax.OpBeginText:
		if pos == 0 {
			return k(pos)
		}
		return false
	case syntax.OpEndText:
		if pos == len(b) {
			return k(pos)
		}
		return false
	}
	e.unsupported("regexp: operator %v in pattern", re.Op)
	return false
}

// ---- strconv.ParseFloat (contract stub, DESIGN 3.6(3)) ----
//
// Acceptance (syntax) is decided exactly for strings of at most 4 bytes by enumeration of the
// grammar on byte classes; the numeric value is exact for plain digit strings and otherwise an
// uninterpreted function of the bytes. Concrete strings are parsed natively.
func (e *Engine) parseFloat(fn *ssa.Function, s Str, bitSize int64) Value {
	mkErr := func() Value {
		return e.mkFmtError(fn, []Value{Str{s: "strconv.ParseFloat: parsing: invalid syntax"}, Slice(nil)})
	}
	if s.IsConcrete() {
		f, err := strconv.ParseFloat(s.s, int(bitSize))
		if err != nil {
			return Tuple{e.tt.F64Const(f), mkErr()}
		}
		return Tuple{e.tt.F64Const(f), Iface{}}
	}
	if s.Len() > 4 {
		e.unsupported("strconv.ParseFloat of a symbolic string longer than 4 bytes")
	}
	// Acceptance is decided by running the real strconv.special and strconv.readFloat from
	// their SSA on the symbolic bytes (for at most 4 bytes there are no hex floats and no
	// range errors, so syntax acceptance is the whole story).
	tt := e.tt
	spec := fn.Pkg.Func("special")
	rf := fn.Pkg.Func("readFloat")
	if spec == nil || rf == nil {
		e.unsupported("strconv internals not found")
	}
	sr := e.callSSA(nil, spec, []Value{s}, nil).(Tuple)
	if sr[2].(*Term).IsTrue() && sr[1].(*Term).IsConst() && int(sr[1].(*Term).Int()) == s.Len() {
		return Tuple{sr[0], Iface{}}
	}
	rr := e.callSSA(nil, rf, []Value{s}, nil).(Tuple)
	mant, exp, neg, hex, n, ok := rr[0].(*Term), rr[1].(*Term), rr[2].(*Term), rr[4].(*Term), rr[5].(*Term), rr[6].(*Term)
	if !ok.IsConst() || !n.IsConst() || !neg.IsConst() || !hex.IsConst() {
		e.unsupported("strconv.readFloat returned symbolic control results")
	}
	if !ok.IsTrue() || int(n.Int()) != s.Len() {
		return Tuple{tt.F64Const(0), mkErr()}
	}
	if hex.IsTrue() {
		e.unsupported("hex float on a symbolic string")
	}
	if exp.IsConst() && exp.Int() == 0 {
		// plain (signed, possibly underscored) integer literal: exact value; mantissa < 10^4 < 2^16
		v := tt.UBVToFP(tt.Extract(mant, 15, 0), F64Sort)
		if neg.IsTrue() {
			v = tt.FNeg(v)
		}
		return Tuple{v, Iface{}}
	}
	if exp.IsConst() && exp.Int() < 0 && exp.Int() >= -15 {
		// d.dd literal: strconv's exact path, float64(mantissa) / 10^k, correctly rounded
		v := tt.FDiv(tt.UBVToFP(tt.Extract(mant, 15, 0), F64Sort), tt.F64Const(math.Pow10(int(-exp.Int()))))
		if neg.IsTrue() {
			v = tt.FNeg(v)
		}
		return Tuple{v, Iface{}}
	}
	args := make([]*Term, s.Len())
	copy(args, e.strBytes(s))
	v := tt.App(fmt.Sprintf("strconv.ParseFloat.%d", s.Len()), F64Sort, args...)
	return Tuple{v, Iface{}}
}

// native helpers kept separate so the intrinsics read clearly
func stringsTrimSpace(s string) string { return stringsTrim(s) }

var _ = math.Pi
