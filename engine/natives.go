package main

import "strings"

func stringsTrim(s string) string                    { return strings.TrimSpace(s) }
func stringsToLower(s string) string                 { return strings.ToLower(s) }
func stringsCount(s, sub string) int                 { return strings.Count(s, sub) }
func stringsReplace(s, old, nw string, n int) string { return strings.Replace(s, old, nw, n) }
func stringsIndexRune(s string, r rune) int          { return strings.IndexRune(s, r) }
