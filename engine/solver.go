package main

// One SMT solver child process ("z3 -in", "z3-new -in", "cvc5 --incremental"),
// kept alive for a whole exploration. Terms are introduced once each through
// (define-fun tN () sort body) under :global-declarations so they survive pops.

import (
	"bufio"
	"fmt"
	"io"
	"math"
	"os"
	"os/exec"
	"strconv"
	"strings"
	"time"
)

type Solver struct {
	kind      string
	cmd       *exec.Cmd
	in        io.WriteCloser
	out       *bufio.Reader
	tt        *TermTable
	defined   map[int]bool
	declVars  map[int]bool
	declUFs   map[string]bool
	depth     int
	Queries   int
	Sat       int
	Unsat     int
	Unknown   int
	Time      time.Duration
	timeoutMs int
	log       io.Writer
	dead      bool
	preamble  []string
}

func solverArgv(kind string, timeoutMs int) []string {
	switch kind {
	case "z3":
		return []string{"z3", "-in", fmt.Sprintf("-t:%d", timeoutMs)}
	case "z3new":
		return []string{"z3-new", "-in", fmt.Sprintf("-t:%d", timeoutMs)}
	case "cvc5":
		return []string{"cvc5", "--incremental", "--produce-models", "--lang=smt2", fmt.Sprintf("--tlimit-per=%d", timeoutMs), "--fp-exp"}
	}
	panic("unknown solver " + kind)
}

func NewSolver(kind string, tt *TermTable, timeoutMs int) (*Solver, error) {
	argv := solverArgv(kind, timeoutMs)
	cmd := exec.Command(argv[0], argv[1:]...)
	in, err := cmd.StdinPipe()
	if err != nil {
		return nil, err
	}
	outp, err := cmd.StdoutPipe()
	if err != nil {
		return nil, err
	}
	cmd.Stderr = os.Stderr
	if err := cmd.Start(); err != nil {
		return nil, err
	}
	s := &Solver{kind: kind, cmd: cmd, in: in, out: bufio.NewReaderSize(outp, 1<<16), tt: tt,
		defined: map[int]bool{}, declVars: map[int]bool{}, declUFs: map[string]bool{}, timeoutMs: timeoutMs}
	if p := os.Getenv("GOSYM_SMTLOG"); p != "" {
		f, _ := os.OpenFile(p, os.O_CREATE|os.O_WRONLY|os.O_APPEND, 0o644)
		s.log = f
	}
	s.send("(set-option :print-success false)")
	s.send("(set-option :global-declarations true)")
	s.send("(set-option :produce-models true)")
	if kind == "cvc5" {
		s.send("(set-logic ALL)")
	}
	return s, nil
}

func (s *Solver) Close() {
	if s.cmd != nil && !s.dead {
		s.in.Close()
		s.cmd.Process.Kill()
		s.cmd.Wait()
		s.dead = true
	}
}

func (s *Solver) send(line string) {
	if s.log != nil {
		fmt.Fprintln(s.log, line)
	}
	if _, err := io.WriteString(s.in, line+"\n"); err != nil {
		panic(engineError{"solver write: " + err.Error()})
	}
}

// Preamble sends a raw command (define-fun of helper predicates) once.
func (s *Solver) Preamble(cmd string) {
	s.preamble = append(s.preamble, cmd)
	s.send(cmd)
}

func (s *Solver) readLine() string {
	line, err := s.out.ReadString('\n')
	if err != nil {
		panic(engineError{"solver read: " + err.Error()})
	}
	line = strings.TrimSpace(line)
	if s.log != nil {
		fmt.Fprintln(s.log, "; <- "+line)
	}
	return line
}

// readSexp reads one balanced s-expression (possibly spanning lines).
func (s *Solver) readSexp() string {
	var sb strings.Builder
	depth := 0
	started := false
	inBar := false
	for {
		line := s.readLine()
		if line == "" && !started {
			continue
		}
		for _, c := range line {
			if inBar {
				if c == '|' {
					inBar = false
				}
				continue
			}
			switch c {
			case '|':
				inBar = true
			case '(':
				depth++
				started = true
			case ')':
				depth--
			}
		}
		sb.WriteString(line)
		sb.WriteByte(' ')
		if !started || depth <= 0 {
			break
		}
	}
	return sb.String()
}

func (s *Solver) define(t *Term) {
	switch t.Op {
	case OConst:
		return
	case OVar:
		if !s.declVars[t.ID] {
			s.declVars[t.ID] = true
			s.send(fmt.Sprintf("(declare-const %s %s)", t.varName(), t.Sort))
		}
		return
	}
	if s.defined[t.ID] {
		return
	}
	// iterative post-order to avoid deep recursion on long chains
	type fr struct {
		t *Term
		i int
	}
	stack := []fr{{t, 0}}
	for len(stack) > 0 {
		top := &stack[len(stack)-1]
		if top.i < len(top.t.Args) {
			a := top.t.Args[top.i]
			top.i++
			switch a.Op {
			case OConst:
			case OVar:
				s.define(a)
			default:
				if !s.defined[a.ID] {
					stack = append(stack, fr{a, 0})
				}
			}
			continue
		}
		cur := top.t
		stack = stack[:len(stack)-1]
		if s.defined[cur.ID] {
			continue
		}
		if cur.Op == OApp && !s.declUFs[cur.Name] {
			d := s.tt.ufs[cur.Name]
			var as []string
			for _, a := range d.args {
				as = append(as, a.String())
			}
			s.send(fmt.Sprintf("(declare-fun %s (%s) %s)", smtName(d.name), strings.Join(as, " "), d.ret))
			s.declUFs[cur.Name] = true
		}
		s.defined[cur.ID] = true
		s.send(fmt.Sprintf("(define-fun t%d () %s %s)", cur.ID, cur.Sort, cur.body()))
	}
}

func (s *Solver) Push() {
	s.send("(push 1)")
	s.depth++
}

func (s *Solver) Pop() {
	s.send("(pop 1)")
	s.depth--
}

func (s *Solver) Assert(t *Term) {
	s.define(t)
	s.send("(assert " + t.ref() + ")")
}

type SatResult int

const (
	RSat SatResult = iota
	RUnsat
	RUnknown
)

func (r SatResult) String() string { return [...]string{"sat", "unsat", "unknown"}[r] }

func (s *Solver) Check() SatResult {
	t0 := time.Now()
	s.send("(check-sat)")
	var r SatResult
	for {
		line := s.readLine()
		if line == "" {
			continue
		}
		switch {
		case line == "sat":
			r = RSat
			s.Sat++
		case line == "unsat":
			r = RUnsat
			s.Unsat++
		case line == "unknown" || strings.HasPrefix(line, "timeout"):
			r = RUnknown
			s.Unknown++
		case strings.HasPrefix(line, "(error"):
			panic(engineError{"solver error: " + line})
		default:
			// unexpected chatter; treat as inconclusive
			panic(engineError{"solver said: " + line})
		}
		break
	}
	s.Queries++
	s.Time += time.Since(t0)
	return r
}

// CheckWith checks sat of the current stack plus the extra assumption.
func (s *Solver) CheckWith(t *Term) SatResult {
	s.Push()
	s.Assert(t)
	t0 := time.Now()
	r := s.Check()
	if d := time.Since(t0); d > 20*time.Millisecond && os.Getenv("GOSYM_SLOWQ") != "" {
		fmt.Fprintf(os.Stderr, "slow query %v (%v) depth=%d vars=%d: %s\n", d, r, s.depth, len(s.tt.varsOf(t)), t.String())
	}
	s.Pop()
	return r
}

// ---- model values ----

type sexp struct {
	atom string
	list []*sexp
}

func parseSexp(src string) *sexp {
	pos := 0
	var parse func() *sexp
	skip := func() {
		for pos < len(src) && (src[pos] == ' ' || src[pos] == '\n' || src[pos] == '\t' || src[pos] == '\r') {
			pos++
		}
	}
	parse = func() *sexp {
		skip()
		if pos >= len(src) {
			return nil
		}
		if src[pos] == '(' {
			pos++
			n := &sexp{list: []*sexp{}}
			for {
				skip()
				if pos >= len(src) {
					return n
				}
				if src[pos] == ')' {
					pos++
					return n
				}
				n.list = append(n.list, parse())
			}
		}
		st := pos
		if src[pos] == '|' {
			pos++
			for pos < len(src) && src[pos] != '|' {
				pos++
			}
			pos++
			return &sexp{atom: src[st:pos]}
		}
		for pos < len(src) && !strings.ContainsRune(" \n\t\r()", rune(src[pos])) {
			pos++
		}
		return &sexp{atom: src[st:pos]}
	}
	return parse()
}

func parseBVAtom(a string) (uint64, int, bool) {
	if strings.HasPrefix(a, "#x") {
		v, err := strconv.ParseUint(a[2:], 16, 64)
		return v, 4 * (len(a) - 2), err == nil
	}
	if strings.HasPrefix(a, "#b") {
		v, err := strconv.ParseUint(a[2:], 2, 64)
		return v, len(a) - 2, err == nil
	}
	return 0, 0, false
}

func sexpToConst(tt *TermTable, e *sexp, sort Sort) (*Term, error) {
	switch sort.K {
	case SBool:
		if e.atom == "true" {
			return tt.True, nil
		}
		if e.atom == "false" {
			return tt.False, nil
		}
	case SBV:
		if e.atom != "" {
			if v, _, ok := parseBVAtom(e.atom); ok {
				return tt.BVConst(v, sort.W), nil
			}
		} else if len(e.list) == 3 && e.list[0].atom == "_" && strings.HasPrefix(e.list[1].atom, "bv") {
			v, err := strconv.ParseUint(e.list[1].atom[2:], 10, 64)
			if err == nil {
				return tt.BVConst(v, sort.W), nil
			}
		}
	case SF32, SF64:
		eb, sb := 11, 52
		if sort.K == SF32 {
			eb, sb = 8, 23
		}
		mk := func(bits uint64) *Term {
			if sort.K == SF32 {
				return tt.mk(&Term{Op: OConst, Sort: F32Sort, BV: bits})
			}
			return tt.mk(&Term{Op: OConst, Sort: F64Sort, BV: bits})
		}
		if len(e.list) == 4 && e.list[0].atom == "fp" {
			sg, _, ok1 := parseBVAtom(e.list[1].atom)
			ex, _, ok2 := parseBVAtom(e.list[2].atom)
			mn, _, ok3 := parseBVAtom(e.list[3].atom)
			if ok1 && ok2 && ok3 {
				bits := sg<<uint(eb+sb) | ex<<uint(sb) | mn
				if ex == mask(eb) && mn != 0 {
					return tt.fconst(sort, math.NaN()), nil
				}
				return mk(bits), nil
			}
		}
		if len(e.list) == 4 && e.list[0].atom == "_" {
			switch e.list[1].atom {
			case "+zero":
				return mk(0), nil
			case "-zero":
				return mk(uint64(1) << uint(eb+sb)), nil
			case "+oo":
				return mk(mask(eb) << uint(sb)), nil
			case "-oo":
				return mk(uint64(1)<<uint(eb+sb) | mask(eb)<<uint(sb)), nil
			case "NaN":
				return tt.fconst(sort, math.NaN()), nil
			}
		}
	}
	return nil, fmt.Errorf("cannot parse model value %v for sort %v", e, sort)
}

func (e *sexp) String() string {
	if e == nil {
		return "<nil>"
	}
	if e.list == nil {
		return e.atom
	}
	var parts []string
	for _, c := range e.list {
		parts = append(parts, c.String())
	}
	return "(" + strings.Join(parts, " ") + ")"
}

// Values returns model values for the given terms (after a sat Check).
func (s *Solver) Values(ts []*Term) ([]*Term, error) {
	out := make([]*Term, len(ts))
	var ask []*Term
	var idx []int
	for i, t := range ts {
		if t.IsConst() {
			out[i] = t
			continue
		}
		s.define(t)
		ask = append(ask, t)
		idx = append(idx, i)
	}
	const chunk = 50
	for st := 0; st < len(ask); st += chunk {
		en := st + chunk
		if en > len(ask) {
			en = len(ask)
		}
		var sb strings.Builder
		sb.WriteString("(get-value (")
		for _, t := range ask[st:en] {
			sb.WriteString(t.ref())
			sb.WriteByte(' ')
		}
		sb.WriteString("))")
		s.send(sb.String())
		resp := s.readSexp()
		if strings.HasPrefix(strings.TrimSpace(resp), "(error") {
			return nil, fmt.Errorf("solver: %s", resp)
		}
		e := parseSexp(resp)
		if e == nil || len(e.list) != en-st {
			return nil, fmt.Errorf("bad get-value response: %s", resp)
		}
		for j, pair := range e.list {
			if len(pair.list) != 2 {
				return nil, fmt.Errorf("bad get-value pair: %s", pair)
			}
			c, err := sexpToConst(s.tt, pair.list[1], ask[st+j].Sort)
			if err != nil {
				return nil, err
			}
			out[idx[st+j]] = c
		}
	}
	return out, nil
}

// Script renders a self-contained SMT-LIB2 script asserting the given terms (declarations,
// definitions in dependency order, preamble functions), for a one-shot run of another solver.
func Script(tt *TermTable, preamble []string, asserts []*Term) string {
	var sb strings.Builder
	sb.WriteString("(set-logic ALL)\n")
	for _, p := range preamble {
		sb.WriteString(p)
		sb.WriteByte('\n')
	}
	declared := map[int]bool{}
	defined := map[int]bool{}
	ufDone := map[string]bool{}
	for _, p := range preamble {
		// names defined by the preamble must not be declared again
		if i := strings.Index(p, "|"); i >= 0 {
			if j := strings.Index(p[i+1:], "|"); j >= 0 {
				ufDone[p[i+1:i+1+j]] = true
			}
		}
	}
	var visit func(t *Term)
	visit = func(t *Term) {
		switch t.Op {
		case OConst:
			return
		case OVar:
			if !declared[t.ID] {
				declared[t.ID] = true
				fmt.Fprintf(&sb, "(declare-const %s %s)\n", t.varName(), t.Sort)
			}
			return
		}
		if defined[t.ID] {
			return
		}
		defined[t.ID] = true
		for _, a := range t.Args {
			visit(a)
		}
		if t.Op == OApp && !ufDone[t.Name] {
			ufDone[t.Name] = true
			d := tt.ufs[t.Name]
			var as []string
			for _, a := range d.args {
				as = append(as, a.String())
			}
			fmt.Fprintf(&sb, "(declare-fun %s (%s) %s)\n", smtName(d.name), strings.Join(as, " "), d.ret)
		}
		fmt.Fprintf(&sb, "(define-fun t%d () %s %s)\n", t.ID, t.Sort, t.body())
	}
	for _, a := range asserts {
		visit(a)
		fmt.Fprintf(&sb, "(assert %s)\n", a.ref())
	}
	sb.WriteString("(check-sat)\n")
	return sb.String()
}

// OneShot runs a script through a fresh solver process and returns its verdict.
func OneShot(kind, script string, timeoutMs int) SatResult {
	var argv []string
	switch kind {
	case "z3":
		argv = []string{"z3", "-in", fmt.Sprintf("-t:%d", timeoutMs)}
	case "z3new":
		argv = []string{"z3-new", "-in", fmt.Sprintf("-t:%d", timeoutMs)}
	default:
		argv = []string{"cvc5", "--lang=smt2", fmt.Sprintf("--tlimit=%d", timeoutMs), "--fp-exp"}
	}
	cmd := exec.Command(argv[0], argv[1:]...)
	cmd.Stdin = strings.NewReader(script)
	out, _ := cmd.Output()
	for _, line := range strings.Split(string(out), "\n") {
		switch strings.TrimSpace(line) {
		case "sat":
			return RSat
		case "unsat":
			return RUnsat
		}
		if strings.HasPrefix(strings.TrimSpace(line), "(error") {
			return RUnknown
		}
	}
	return RUnknown
}
