package main

// Path exploration: decision-prefix DFS with stateless re-execution (DESIGN 3.1).

import (
	"encoding/json"
	"fmt"
	"go/types"
	"io"
	"os"
	"sort"
	"strings"
	"sync"
	"time"

	"golang.org/x/tools/go/ssa"
)

type Config struct {
	MaxSteps       int
	MaxDepth       int
	Trace          bool
	MapOrder       string
	Solver         string
	TimeoutMs      int
	Workers        int
	MaxPaths       int
	MaxWallS       int
	MaxViol        int
	ResetEvery     int
	Params         map[string]int64
	Concrete       map[string]replayInput // selftest: inputs come from here
	Known          map[string]bool
	CrossSolver    string // thorough tier: re-discharge solver-decided obligations with this solver, one-shot
	CrossMax       int
	CrossTimeoutMs int
	Stubs          map[string]*ssa.Function // full name of a replaced function -> harness function (DESIGN 3.6(6))
}

// Dec is one recorded decision; K carries the candidate value of a concretisation so
// that re-execution of a prefix asks the same question again.
type Dec struct {
	V bool
	K uint64
}

type inputInfo struct {
	fresh bool
	name  string
	kind  string // int|i64|i32|u8|bool|f64|f32|bytes
	t     *Term
	bs    []*Term
}

type Violation struct {
	Label     string                 `json:"label"`
	Kind      string                 `json:"kind"` // assert | panic
	Msg       string                 `json:"msg"`
	Inputs    map[string]replayInput `json:"inputs"`
	Decisions string                 `json:"decisions"`
	Markers   []string               `json:"markers"`
	File      string                 `json:"file,omitempty"`
	Confirmed *bool                  `json:"confirmed,omitempty"`
}

type replayInput struct {
	T string `json:"t"`
	V string `json:"v"`
}

type Sample struct {
	Decisions int                    `json:"decisions"`
	End       string                 `json:"end"`
	Inputs    map[string]replayInput `json:"inputs"`
}

// Shared state across workers.
type Explorer struct {
	cfg      Config
	prog     *ssa.Program
	harness  *ssa.Function
	initPkgs []*ssa.Package

	mu                                  sync.Mutex
	queue                               [][]Dec
	idle                                int
	done                                bool
	stats                               Stats
	funcs                               map[string]bool
	stubs                               map[string]int
	markers                             map[string]int
	viols                               []Violation
	violSeen                            map[string]bool
	incon                               []string
	inconSeen                           map[string]bool
	samples                             []Sample
	bounds                              map[string]int64
	observes                            []string
	rtypePtrT                           types.Type
	crossDone, crossAgree, crossUnknown int
	startTime                           time.Time
}

type Stats struct {
	Paths        int            `json:"paths"`
	PathEnds     map[string]int `json:"path_ends"`
	Decisions    int            `json:"decisions"`
	Queries      int            `json:"queries"`
	Sat          int            `json:"sat"`
	Unsat        int            `json:"unsat"`
	Unknown      int            `json:"unknown"`
	Obligations  int            `json:"obligations"`
	Discharged   int            `json:"discharged"`
	TrivialObl   int            `json:"trivially_true_assertions"`
	SolverTimeS  float64        `json:"solver_time_s"`
	ByteDecided  int            `json:"decided_by_byte_domain"`
	Steps        int64          `json:"ssa_instructions"`
	MaxPathSteps int            `json:"max_path_instructions"`
}

// Engine is one worker: its own term table, solver and interpreter state.
type Engine struct {
	x       *Explorer
	cfg     *Config
	prog    *ssa.Program
	tt      *TermTable
	solver  *Solver
	globals map[*ssa.Global]*Value
	inited  bool
	inInit  bool

	// per path
	prefix      []Dec
	trace       []Dec
	frames      int // solver frames currently pushed (== number of trace entries asserted)
	frameLits   []bool
	frameTerms  []*Term
	steps       int
	depth       int
	goroutines  []deferred
	inGoroutine int
	inputs      []*inputInfo
	inputByName map[string]*inputInfo
	smallInts   map[*Term]bool // 64-bit inputs assumed (vIntRange) to lie within +-2^53
	mapOrderCtr int
	clock       *Term // virtual time (ns)
	sleeps      []*Term
	local       [][]Dec
	markersHit  map[string]bool
	funcsHit    map[string]bool
	stubsHit    map[string]int
	observed    []string
	traceOut    io.Writer
	pathsSince  int
	envCtr      int
	intrCache   map[*ssa.Function]intrinsic
	intrMiss    map[*ssa.Function]bool
	execCache   map[*ssa.Function]bool
	obligations int
	discharged  int
	trivial     int
	decisions   int
	unknownHit  bool
	decided     map[*Term]bool
	dom         map[*Term]*byteSet
	entangled   map[*Term]bool
	byteDecided int
	randCtr     int
	syncMaps    map[*Value]*Map
	onceDone    map[*Value]bool
	pools       map[*Value][]Value // sync.Pool contents (model: LIFO)
	randLog     []randCall
}

func (e *Engine) noteStub(name string) { e.stubsHit[name]++ }
func (e *Engine) noteFunc(fn *ssa.Function, name string) {
	if !e.funcsHit[name] {
		e.funcsHit[name] = true
	}
}

func (e *Engine) reset() {
	if e.solver != nil {
		e.x.mu.Lock()
		e.x.stats.Queries += e.solver.Queries
		e.x.stats.Sat += e.solver.Sat
		e.x.stats.Unsat += e.solver.Unsat
		e.x.stats.Unknown += e.solver.Unknown
		e.x.stats.SolverTimeS += e.solver.Time.Seconds()
		e.x.mu.Unlock()
		e.solver.Close()
	}
	e.tt = NewTermTable()
	s, err := NewSolver(e.cfg.Solver, e.tt, e.cfg.TimeoutMs)
	if err != nil {
		panic(engineError{"cannot start solver: " + err.Error()})
	}
	e.solver = s
	e.installPreamble()
	e.globals = map[*ssa.Global]*Value{}
	e.inited = false
	e.frames = 0
	e.frameLits = nil
	e.frameTerms = nil
	e.pathsSince = 0
}

// ---- decisions ----

func (e *Engine) pushLit(c *Term, val bool) {
	e.solver.Push()
	lit := c
	if !val {
		lit = e.tt.Not(c)
	}
	e.solver.Assert(lit)
	e.frames++
	e.frameLits = append(e.frameLits, val)
	e.frameTerms = append(e.frameTerms, lit)
}

// crossCheck re-discharges an obligation the main solver found unsat with a second solver, one-shot,
// from a self-contained script (DESIGN 3.10). A disagreement or an inconclusive answer is reported.
func (e *Engine) crossCheck(neg *Term, label string) {
	if e.cfg.CrossSolver == "" {
		return
	}
	e.x.mu.Lock()
	if e.x.crossDone >= e.cfg.CrossMax {
		e.x.mu.Unlock()
		return
	}
	e.x.crossDone++
	e.x.mu.Unlock()
	asserts := append(append([]*Term{}, e.frameTerms[:e.frames]...), neg)
	r := OneShot(e.cfg.CrossSolver, Script(e.tt, e.solver.preamble, asserts), e.cfg.CrossTimeoutMs)
	e.x.mu.Lock()
	defer e.x.mu.Unlock()
	switch r {
	case RUnsat:
		e.x.crossAgree++
	case RSat:
		msg := "second solver " + e.cfg.CrossSolver + " finds a counterexample where " + e.cfg.Solver + " said unsat: obligation " + label
		if !e.x.inconSeen[msg] {
			e.x.inconSeen[msg] = true
			e.x.incon = append(e.x.incon, msg)
		}
	default:
		e.x.crossUnknown++
	}
}

func (e *Engine) popTo(n int) {
	for e.frames > n {
		e.solver.Pop()
		e.frames--
	}
	e.frameLits = e.frameLits[:e.frames]
	e.frameTerms = e.frameTerms[:e.frames]
}

// decide returns the truth value of c on this path, forking when both are feasible.
func (e *Engine) decide(c *Term) bool { return e.decideK(c, 0, false) }

// concretize returns a concrete value for t, forking over the values the path allows.
func (e *Engine) concretize(t *Term) uint64 {
	for n := 0; ; n++ {
		if t.IsConst() {
			return t.BV
		}
		if n > 256 {
			e.unsupported("concretisation of a term with more than 256 feasible values")
		}
		i := len(e.trace)
		var cand uint64
		if i < len(e.prefix) {
			cand = e.prefix[i].K
		} else {
			if e.solver.Check() != RSat {
				e.unsupported("cannot obtain a model to concretise a term")
			}
			vals, err := e.solver.Values([]*Term{t})
			if err != nil {
				panic(engineError{"concretize: " + err.Error()})
			}
			cand = vals[0].BV
		}
		var c *Term
		switch t.Sort.K {
		case SBool:
			c = e.tt.Eq(t, e.tt.Bool(cand == 1))
		case SBV:
			c = e.tt.Eq(t, e.tt.BVConst(cand, t.Sort.W))
		default:
			e.unsupported("concretisation of a floating-point term")
		}
		if e.decideK(c, cand, false) {
			return cand
		}
	}
}

func (e *Engine) concretizeStr(s Str) string {
	if s.IsConcrete() {
		return s.s
	}
	bs := make([]byte, s.Len())
	for i := range bs {
		bs[i] = byte(e.concretize(s.b[i]))
	}
	return string(bs)
}

// decideK: free = both sides are known feasible without asking (c constrains only a fresh input).
func (e *Engine) decideK(c *Term, k uint64, free bool) bool {
	if c.IsConst() {
		return c.BV == 1
	}
	// (decisions during package initialisation are ordinary decisions: initialisation is re-executed at the start
	// of every path, under the same decision prefix)
	// a condition already decided on this path keeps its value (no query, no trace entry)
	if v, ok := e.decided[c]; ok {
		return v
	}
	defer func() {
		if len(e.trace) > 0 {
			v := e.trace[len(e.trace)-1].V
			e.decided[c] = v
			e.decided[e.tt.Not(c)] = !v
		}
	}()
	i := len(e.trace)
	e.decisions++
	if i < len(e.prefix) {
		v := e.prefix[i].V
		e.trace = append(e.trace, Dec{v, k})
		e.noteLiteral(c, v)
		if i >= e.frames {
			e.pushLit(c, v)
		}
		return v
	}
	// frontier
	if e.frames != i {
		panic(engineError{fmt.Sprintf("solver frame mismatch: frames=%d trace=%d", e.frames, i)})
	}
	var rt, rf SatResult
	if free {
		rt, rf = RSat, RSat
	} else if t, f, ok := e.byteDecide(c); ok {
		rt, rf = RUnsat, RUnsat
		if t {
			rt = RSat
		}
		if f {
			rf = RSat
		}
		e.byteDecided++
	} else {
		rt = e.solver.CheckWith(c)
		if rt == RUnsat {
			rf = RSat // pc is satisfiable, so the other side must be
		} else {
			rf = e.solver.CheckWith(e.tt.Not(c))
		}
	}
	if rt == RUnknown || rf == RUnknown {
		e.unknownHit = true
		e.x.inconclusive("solver returned unknown on a branch condition")
	}
	tOK := rt != RUnsat
	fOK := rf != RUnsat
	var v bool
	switch {
	case tOK && fOK:
		alt := append(append([]Dec{}, e.trace...), Dec{false, k})
		e.local = append(e.local, alt)
		v = true
	case tOK:
		v = true
	case fOK:
		v = false
	default:
		panic(engineError{"both branches infeasible: path condition unsatisfiable"})
	}
	e.trace = append(e.trace, Dec{v, k})
	e.noteLiteral(c, v)
	e.pushLit(c, v)
	return v
}

// assume constrains the path; ends it if infeasible.
func (e *Engine) assume(c *Term) {
	if c.IsTrue() {
		return
	}
	if c.IsFalse() {
		panic(pathEnd{kind: "assume"})
	}
	i := len(e.trace)
	if i < len(e.prefix) {
		if !e.prefix[i].V {
			panic(engineError{"prefix contradicts an assumption"})
		}
		e.trace = append(e.trace, Dec{V: true})
		e.noteLiteral(c, true)
		if i >= e.frames {
			e.pushLit(c, true)
		}
		return
	}
	if t, _, ok := e.byteDecide(c); ok {
		if !t {
			panic(pathEnd{kind: "assume"})
		}
		e.byteDecided++
	} else {
		r := e.solver.CheckWith(c)
		if r == RUnsat {
			panic(pathEnd{kind: "assume"})
		}
		if r == RUnknown {
			e.unknownHit = true
			e.x.inconclusive("solver returned unknown on an assumption")
		}
	}
	e.trace = append(e.trace, Dec{V: true})
	e.noteLiteral(c, true)
	e.pushLit(c, true)
}

// chooseEnv returns a concrete environment choice in [0,n) by forking.
func (e *Engine) chooseEnv(name string, n int) int {
	in := e.input(name, "int", BVSort(64))
	free := in.fresh
	in.fresh = false
	for i := 0; i < n-1; i++ {
		if e.decideK(e.tt.Eq(in.t, e.tt.IntConst(int64(i), 64)), 0, free) {
			return i
		}
	}
	if free {
		// x != 0..n-2 so far and x is otherwise unconstrained: x == n-1 is feasible
		i := len(e.trace)
		c := e.tt.Eq(in.t, e.tt.IntConst(int64(n-1), 64))
		e.trace = append(e.trace, Dec{V: true})
		e.noteLiteral(c, true)
		if i >= e.frames {
			e.pushLit(c, true)
		}
		return n - 1
	}
	e.assume(e.tt.Eq(in.t, e.tt.IntConst(int64(n-1), 64)))
	return n - 1
}

func (e *Engine) input(name, kind string, s Sort) *inputInfo {
	if in, ok := e.inputByName[name]; ok {
		if in.kind != kind {
			panic(engineError{fmt.Sprintf("input %q requested as %s and %s", name, in.kind, kind)})
		}
		return in
	}
	in := &inputInfo{name: name, kind: kind, fresh: true}
	if c, ok := e.cfg.Concrete[name]; e.cfg.Concrete != nil {
		if !ok {
			c = replayInput{T: kind, V: ""}
		}
		in.t = e.constFromReplay(kind, s, c)
	} else {
		in.t = e.tt.Var(name, s)
	}
	e.inputs = append(e.inputs, in)
	e.inputByName[name] = in
	return in
}

func (e *Engine) inputBytes(name string, n int) *inputInfo {
	if in, ok := e.inputByName[name]; ok {
		if len(in.bs) != n {
			panic(engineError{fmt.Sprintf("input %q requested with lengths %d and %d", name, len(in.bs), n)})
		}
		return in
	}
	in := &inputInfo{name: name, kind: "bytes"}
	if e.cfg.Concrete != nil {
		c := e.cfg.Concrete[name]
		raw := hexDecode(c.V)
		for i := 0; i < n; i++ {
			var b byte
			if i < len(raw) {
				b = raw[i]
			}
			in.bs = append(in.bs, e.tt.BVConst(uint64(b), 8))
		}
	} else {
		for i := 0; i < n; i++ {
			in.bs = append(in.bs, e.tt.Var(fmt.Sprintf("%s[%d]", name, i), BVSort(8)))
		}
	}
	e.inputs = append(e.inputs, in)
	e.inputByName[name] = in
	return in
}

// ---- obligations ----

func (e *Engine) assertObl(c *Term, label string) {
	if c.IsTrue() {
		e.trivial++
		return
	}
	e.obligations++
	if c.IsFalse() {
		e.reportViolation("assert", label, "assertion is false on this path")
		panic(pathEnd{kind: "violation", msg: label})
	}
	i := len(e.trace)
	if i < len(e.prefix) {
		// already examined on the path that first reached it; follow the recorded side
		v := e.prefix[i].V
		e.trace = append(e.trace, Dec{V: v})
		e.noteLiteral(c, v)
		if i >= e.frames {
			e.pushLit(c, v)
		}
		e.obligations--
		if !v {
			panic(engineError{"prefix follows a failed assertion"})
		}
		return
	}
	if t, f, ok := e.byteDecide(c); ok && t && !f {
		e.discharged++
		e.byteDecided++
		e.trace = append(e.trace, Dec{V: true})
		e.noteLiteral(c, true)
		e.pushLit(c, true)
		return
	}
	neg := e.tt.Not(c)
	e.solver.Push()
	e.solver.Assert(neg)
	r := e.solver.Check()
	switch r {
	case RUnsat:
		e.solver.Pop()
		e.crossCheck(neg, label)
		e.discharged++
		// c is implied by the path condition: no frame needed, but keep trace aligned
		e.trace = append(e.trace, Dec{V: true})
		e.noteLiteral(c, true)
		e.pushLit(c, true)
		return
	case RUnknown:
		e.solver.Pop()
		e.unknownHit = true
		e.x.inconclusive("solver returned unknown on obligation " + label)
		e.trace = append(e.trace, Dec{V: true})
		e.noteLiteral(c, true)
		e.pushLit(c, true)
		return
	}
	// counterexample
	e.reportViolationWithModel("assert", label, "assertion can fail")
	e.solver.Pop()
	// continue the path under the assumption that the assertion holds (if feasible)
	if e.solver.CheckWith(c) == RUnsat {
		panic(pathEnd{kind: "violation", msg: label})
	}
	e.trace = append(e.trace, Dec{V: true})
	e.noteLiteral(c, true)
	e.pushLit(c, true)
}

func (e *Engine) modelInputs() (map[string]replayInput, error) {
	out := map[string]replayInput{}
	var ts []*Term
	for _, in := range e.inputs {
		if in.kind == "bytes" {
			ts = append(ts, in.bs...)
		} else {
			ts = append(ts, in.t)
		}
	}
	vals, err := e.solver.Values(ts)
	if err != nil {
		return nil, err
	}
	k := 0
	for _, in := range e.inputs {
		if in.kind == "bytes" {
			bs := make([]byte, len(in.bs))
			for i := range in.bs {
				bs[i] = byte(vals[k].BV)
				k++
			}
			out[in.name] = replayInput{T: "bytes", V: hexEncode(bs)}
		} else {
			out[in.name] = e.replayFromConst(in.kind, vals[k])
			k++
		}
	}
	return out, nil
}

func (e *Engine) reportViolationWithModel(kind, label, msg string) {
	// try to find a small witness first (DESIGN appendix A): constrain numeric inputs
	var inputs map[string]replayInput
	var err error
	got := false
	for _, lim := range []int64{3, 100} {
		e.solver.Push()
		for _, in := range e.inputs {
			if in.kind == "bytes" || in.t.IsConst() {
				continue
			}
			switch in.t.Sort.K {
			case SBV:
				if in.t.Sort.W >= 16 {
					w := in.t.Sort.W
					e.solver.Assert(e.tt.And(e.tt.SLe(e.tt.IntConst(-lim, w), in.t), e.tt.SLe(in.t, e.tt.IntConst(lim, w))))
				}
			case SF64:
				e.solver.Assert(e.tt.And(e.tt.FLe(e.tt.F64Const(float64(-lim)), in.t), e.tt.FLe(in.t, e.tt.F64Const(float64(lim)))))
			}
		}
		if e.solver.Check() == RSat {
			inputs, err = e.modelInputs()
			got = err == nil
		}
		e.solver.Pop()
		if got {
			break
		}
	}
	if !got {
		if e.solver.Check() != RSat {
			e.x.inconclusive("could not re-obtain a model for a counterexample of " + label)
			return
		}
		inputs, err = e.modelInputs()
		if err != nil {
			e.x.inconclusive("model extraction failed: " + err.Error())
			return
		}
	}
	e.x.addViolation(Violation{Label: label, Kind: kind, Msg: msg, Inputs: inputs, Decisions: decString(e.trace), Markers: e.markerList()})
}

func (e *Engine) markerList() []string {
	var out []string
	for m := range e.markersHit {
		out = append(out, m)
	}
	sort.Strings(out)
	return out
}

// reportViolation for a violation on the current path condition (no extra negated literal).
func (e *Engine) reportViolation(kind, label, msg string) {
	if e.cfg.Concrete != nil {
		e.x.addViolation(Violation{Label: label, Kind: kind, Msg: msg, Inputs: map[string]replayInput{}, Decisions: decString(e.trace), Markers: e.markerList()})
		return
	}
	e.reportViolationWithModel(kind, label, msg)
}

func decString(d []Dec) string {
	var sb strings.Builder
	for _, b := range d {
		if b.V {
			sb.WriteByte('1')
		} else {
			sb.WriteByte('0')
		}
	}
	return sb.String()
}

func (x *Explorer) addViolation(v Violation) {
	x.mu.Lock()
	defer x.mu.Unlock()
	key := v.Kind + ":" + v.Label + ":" + strings.Join(v.Markers, ",")
	if v.Kind == "panic" {
		key += ":" + v.Msg
	}
	if x.violSeen[key] {
		return
	}
	x.violSeen[key] = true
	x.viols = append(x.viols, v)
}

func (x *Explorer) inconclusive(msg string) {
	x.mu.Lock()
	defer x.mu.Unlock()
	if !x.inconSeen[msg] {
		x.inconSeen[msg] = true
		x.incon = append(x.incon, msg)
	}
}

// ---- running paths ----

func (e *Engine) runPath(prefix []Dec) (end pathEnd) {
	e.prefix = prefix
	e.trace = e.trace[:0]
	e.steps = 0
	e.depth = 0
	e.goroutines = nil
	e.inGoroutine = 0
	e.inputs = nil
	e.inputByName = map[string]*inputInfo{}
	e.smallInts = map[*Term]bool{}
	e.mapOrderCtr = 0
	e.envCtr = 0
	e.clock = nil
	e.sleeps = nil
	e.observed = nil
	e.unknownHit = false
	e.markersHit = map[string]bool{}
	e.decided = map[*Term]bool{}
	e.dom = map[*Term]*byteSet{}
	e.entangled = map[*Term]bool{}
	e.randCtr = 0
	e.randLog = nil
	e.syncMaps = nil
	e.onceDone = nil
	e.pools = nil

	// solver stack: keep the frames that agree with the new prefix
	common := 0
	for common < e.frames && common < len(prefix) && e.frameLits[common] == prefix[common].V {
		common++
	}
	e.popTo(common)

	defer func() {
		r := recover()
		if r == nil {
			return
		}
		switch r := r.(type) {
		case pathEnd:
			end = r
		case targetPanic:
			end = pathEnd{kind: "panic", msg: r.String()}
			e.reportViolation("panic", "panic", r.String())
		default:
			panic(r)
		}
	}()

	// package-level state is rebuilt for every path (a path is a fresh process): globals a change to the
	// code may add and mutate (caches, ...) must not leak from one path into the next
	e.globals = map[*ssa.Global]*Value{}
	e.inited = false
	if !e.inited {
		e.inInit = true
		for _, p := range e.x.initPkgs {
			e.runInit(p)
		}
		e.inInit = false
		e.inited = true
	}
	e.callSSA(nil, e.x.harness, nil, nil)
	// let stray goroutines finish so that their panics are seen
	for e.runOneGoroutine() {
	}
	return pathEnd{kind: "done"}
}

func (e *Engine) runInit(p *ssa.Package) {
	defer func() {
		if r := recover(); r != nil {
			if pe, ok := r.(pathEnd); ok {
				if pe.kind == "assume" {
					panic(r) // an infeasible environment choice made during initialisation ends the path as anywhere else
				}
				e.x.inconclusive(fmt.Sprintf("package init of %s incomplete: %s", p.Pkg.Path(), pe.msg))
				return
			}
			if tp, ok := r.(targetPanic); ok {
				e.x.inconclusive(fmt.Sprintf("package init of %s panicked: %s", p.Pkg.Path(), tp.String()))
				return
			}
			panic(r)
		}
	}()
	if f := p.Func("init"); f != nil {
		e.callSSA(nil, f, nil, nil)
	}
}

func (x *Explorer) worker(id int, wg *sync.WaitGroup, fatal chan<- string) {
	defer wg.Done()
	e := &Engine{x: x, cfg: &x.cfg, prog: x.prog, traceOut: os.Stderr}
	e.funcsHit = map[string]bool{}
	e.stubsHit = map[string]int{}
	e.intrCache = map[*ssa.Function]intrinsic{}
	e.intrMiss = map[*ssa.Function]bool{}
	e.execCache = map[*ssa.Function]bool{}
	defer func() {
		if r := recover(); r != nil {
			msg := fmt.Sprint(r)
			if ee, ok := r.(engineError); ok {
				msg = "engine error: " + ee.msg
			} else {
				buf := make([]byte, 1<<14)
				n := runtimeStack(buf)
				msg = fmt.Sprintf("engine crash: %v\n%s", r, buf[:n])
			}
			x.mu.Lock()
			x.done = true
			x.mu.Unlock()
			select {
			case fatal <- msg:
			default:
			}
		}
		if e.solver != nil {
			e.flushStats()
			e.solver.Close()
		}
	}()
	e.reset()
	for {
		var prefix []Dec
		if n := len(e.local); n > 0 {
			prefix = e.local[n-1]
			e.local = e.local[:n-1]
		} else {
			prefix = x.take()
			if prefix == nil {
				return
			}
		}
		if e.cfg.ResetEvery > 0 && e.pathsSince >= e.cfg.ResetEvery {
			e.flushStats()
			e.reset()
		}
		e.pathsSince++
		tPath := time.Now()
		q0, st0 := e.solver.Queries, e.solver.Time
		end := e.runPath(prefix)
		if d := time.Since(tPath); d > 200*time.Millisecond && os.Getenv("GOSYM_SLOW") != "" {
			fmt.Fprintf(os.Stderr, "slow path: %v end=%s/%s steps=%d decisions=%d queries=%d solver=%v terms=%d markers=%v\n", d, end.kind, end.msg, e.steps, len(e.trace), e.solver.Queries-q0, e.solver.Time-st0, len(e.tt.all), e.markersHit)
		}
		x.record(e, end)
		// share work
		x.mu.Lock()
		for x.idle > len(x.queue) && len(e.local) > 1 {
			x.queue = append(x.queue, e.local[0])
			e.local = e.local[1:]
		}
		stop := x.done
		x.mu.Unlock()
		if stop {
			return
		}
	}
}

func (e *Engine) flushStats() {
	x := e.x
	x.mu.Lock()
	defer x.mu.Unlock()
	x.stats.Queries += e.solver.Queries
	x.stats.Sat += e.solver.Sat
	x.stats.Unsat += e.solver.Unsat
	x.stats.Unknown += e.solver.Unknown
	x.stats.SolverTimeS += e.solver.Time.Seconds()
	e.solver.Queries, e.solver.Sat, e.solver.Unsat, e.solver.Unknown, e.solver.Time = 0, 0, 0, 0, 0
	for f := range e.funcsHit {
		x.funcs[f] = true
	}
	for s, n := range e.stubsHit {
		x.stubs[s] += n
	}
	e.stubsHit = map[string]int{}
}

var condMu sync.Mutex
var cond = sync.NewCond(&condMu)

// take blocks until a prefix is available or all workers are idle.
func (x *Explorer) take() []Dec {
	x.mu.Lock()
	x.idle++
	for {
		if x.done {
			x.mu.Unlock()
			return nil
		}
		if n := len(x.queue); n > 0 {
			p := x.queue[n-1]
			x.queue = x.queue[:n-1]
			x.idle--
			x.mu.Unlock()
			return p
		}
		if x.idle >= x.cfg.Workers {
			x.done = true
			x.mu.Unlock()
			return nil
		}
		x.mu.Unlock()
		time.Sleep(200 * time.Microsecond)
		x.mu.Lock()
	}
}

func (x *Explorer) record(e *Engine, end pathEnd) {
	x.mu.Lock()
	defer x.mu.Unlock()
	x.stats.Paths++
	x.stats.PathEnds[end.kind]++
	x.stats.Decisions += e.decisions
	e.decisions = 0
	x.stats.ByteDecided += e.byteDecided
	e.byteDecided = 0
	x.stats.Obligations += e.obligations
	x.stats.Discharged += e.discharged
	x.stats.TrivialObl += e.trivial
	e.obligations, e.discharged, e.trivial = 0, 0, 0
	x.stats.Steps += int64(e.steps)
	if e.steps > x.stats.MaxPathSteps {
		x.stats.MaxPathSteps = e.steps
	}
	switch end.kind {
	case "unsupported", "budget", "deadlock":
		msg := end.kind + ": " + end.msg
		if !x.inconSeen[msg] {
			x.inconSeen[msg] = true
			x.incon = append(x.incon, msg)
		}
	}
	if end.kind == "done" || end.kind == "violation" || end.kind == "panic" {
		for m := range e.markersHit {
			x.markers[m]++
		}
	}
	if end.kind == "done" {
		if len(x.samples) < 6 && (x.stats.Paths%7 == 1 || len(x.samples) == 0) && e.cfg.Concrete == nil {
			// concrete witness of this path
			if e.solver.Check() == RSat {
				if in, err := e.modelInputs(); err == nil {
					x.samples = append(x.samples, Sample{Decisions: len(e.trace), End: end.kind, Inputs: in})
				}
			}
		}
		if e.cfg.Concrete != nil {
			x.observes = append(x.observes, e.observed...)
		}
	}
	if x.cfg.MaxPaths > 0 && x.stats.Paths >= x.cfg.MaxPaths && !x.done {
		x.done = true
		msg := fmt.Sprintf("budget: path limit %d reached", x.cfg.MaxPaths)
		if !x.inconSeen[msg] {
			x.inconSeen[msg] = true
			x.incon = append(x.incon, msg)
		}
	}
	if x.cfg.MaxWallS > 0 && !x.done && time.Since(x.startTime) > time.Duration(x.cfg.MaxWallS)*time.Second {
		x.done = true
		msg := fmt.Sprintf("budget: wall-clock limit of %d s reached before the exploration was complete", x.cfg.MaxWallS)
		if !x.inconSeen[msg] {
			x.inconSeen[msg] = true
			x.incon = append(x.incon, msg)
		}
	}
	if x.cfg.MaxViol > 0 && len(x.viols) >= x.cfg.MaxViol {
		x.done = true
	}
}

// ---- result ----

type Result struct {
	Harness      string           `json:"harness"`
	Package      string           `json:"package"`
	Params       map[string]int64 `json:"params"`
	Solver       string           `json:"solver"`
	Stats        Stats            `json:"stats"`
	Functions    []string         `json:"functions_encoded"`
	Stubs        map[string]int   `json:"stubs_hit"`
	Markers      map[string]int   `json:"markers"`
	Violations   []Violation      `json:"violations"`
	Inconclusive []string         `json:"inconclusive"`
	Samples      []Sample         `json:"samples"`
	Bounds       map[string]int64 `json:"bounds"`
	Observed     []string         `json:"observed,omitempty"`
	WallS        float64          `json:"wall_s"`
	Exhaustive   bool             `json:"exhaustive"`
	CrossChecked int              `json:"cross_checked"`
	CrossAgree   int              `json:"cross_agree"`
	CrossUnknown int              `json:"cross_unknown"`
	CrossSolver  string           `json:"cross_solver,omitempty"`
}

func (x *Explorer) Run() (*Result, error) {
	x.startTime = time.Now()
	x.stats.PathEnds = map[string]int{}
	x.funcs = map[string]bool{}
	x.stubs = map[string]int{}
	x.markers = map[string]int{}
	x.violSeen = map[string]bool{}
	x.inconSeen = map[string]bool{}
	x.bounds = map[string]int64{}
	x.queue = [][]Dec{{}}
	var wg sync.WaitGroup
	fatal := make(chan string, x.cfg.Workers)
	for i := 0; i < x.cfg.Workers; i++ {
		wg.Add(1)
		go x.worker(i, &wg, fatal)
	}
	stopProg := make(chan struct{})
	if os.Getenv("GOSYM_PROGRESS") != "" {
		go func() {
			for {
				select {
				case <-stopProg:
					return
				case <-time.After(5 * time.Second):
					x.mu.Lock()
					fmt.Fprintf(os.Stderr, "progress: paths=%d queue=%d idle=%d viol=%d\n", x.stats.Paths, len(x.queue), x.idle, len(x.viols))
					x.mu.Unlock()
				}
			}
		}()
	}
	wg.Wait()
	close(stopProg)
	select {
	case msg := <-fatal:
		return nil, fmt.Errorf("%s", msg)
	default:
	}
	res := &Result{
		Harness: x.harness.Name(), Package: x.harness.Pkg.Pkg.Path(), Params: x.cfg.Params, Solver: x.cfg.Solver,
		Stats: x.stats, Stubs: x.stubs, Markers: x.markers, Violations: x.viols, Inconclusive: x.incon,
		Samples: x.samples, Bounds: x.bounds, Observed: x.observes, WallS: time.Since(x.startTime).Seconds(),
	}
	res.CrossChecked, res.CrossAgree, res.CrossUnknown, res.CrossSolver = x.crossDone, x.crossAgree, x.crossUnknown, x.cfg.CrossSolver
	for f := range x.funcs {
		res.Functions = append(res.Functions, f)
	}
	sort.Strings(res.Functions)
	res.Exhaustive = len(x.incon) == 0 && (x.cfg.MaxViol == 0 || len(x.viols) < x.cfg.MaxViol)
	return res, nil
}

func writeJSON(path string, v interface{}) error {
	b, err := json.MarshalIndent(v, "", " ")
	if err != nil {
		return err
	}
	return os.WriteFile(path, b, 0o644)
}

// smallInt: t is a 64-bit input the harness bounded within +-2^53 (so that float64(t) is exact).
func (e *Engine) smallInt(t *Term) bool { return t.IsConst() || e.smallInts[t] }
