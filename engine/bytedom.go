package main

import "unicode"

// A cheap pre-solver for branch conditions over a single symbolic byte.
//
// For every 8-bit input variable v the engine keeps dom(v), the set of values allowed by the
// asserted literals whose only variable is v (an over-approximation of the feasible values, exact
// when no asserted literal mentions v together with another variable). A new condition c over the
// single variable v is evaluated for all 256 values at once:
//   c true on all of dom(v)  -> implied, follow it (sound: dom over-approximates)
//   c false on all of dom(v) -> implied false
//   mixed and v not entangled -> both sides feasible (exact: pc = A(v) /\ B(rest), pc satisfiable)
//   otherwise                 -> ask the SMT solver
// This decides nothing the solver would not; it only saves queries.

type byteSet [4]uint64

func (s *byteSet) has(x int) bool { return s[x>>6]>>(uint(x)&63)&1 == 1 }
func (s *byteSet) clear(x int)    { s[x>>6] &^= 1 << (uint(x) & 63) }

func fullByteSet() *byteSet {
	return &byteSet{^uint64(0), ^uint64(0), ^uint64(0), ^uint64(0)}
}

// varsOf returns the variables of t (cached per term table). nil,false if there are more than 4
// distinct ones or t contains an operator evalVec cannot handle is irrelevant here: only the set matters.
func (tt *TermTable) varsOf(t *Term) []*Term {
	if tt.varCache == nil {
		tt.varCache = map[*Term][]*Term{}
	}
	if v, ok := tt.varCache[t]; ok {
		return v
	}
	var out []*Term
	switch t.Op {
	case OConst:
	case OVar:
		out = []*Term{t}
	default:
		seen := map[*Term]bool{}
		for _, a := range t.Args {
			for _, v := range tt.varsOf(a) {
				if !seen[v] {
					seen[v] = true
					out = append(out, v)
				}
			}
		}
	}
	tt.varCache[t] = out
	return out
}

// evalVec evaluates t for all 256 values of the 8-bit variable v. ok=false if t contains an
// operator that is not evaluated here (floating point, uninterpreted functions other than the
// unicode predicates).
func (e *Engine) evalVec(t *Term, v *Term, memo map[*Term]*[256]uint64) (*[256]uint64, bool) {
	if r, ok := memo[t]; ok {
		return r, r != nil
	}
	var out [256]uint64
	res := &out
	fail := func() (*[256]uint64, bool) {
		memo[t] = nil
		return nil, false
	}
	switch t.Op {
	case OConst:
		if isFP(t.Sort) {
			return fail()
		}
		for i := range out {
			out[i] = t.BV
		}
	case OVar:
		if t != v {
			return fail()
		}
		for i := range out {
			out[i] = uint64(i)
		}
	default:
		args := make([]*[256]uint64, len(t.Args))
		for i, a := range t.Args {
			r, ok := e.evalVec(a, v, memo)
			if !ok {
				return fail()
			}
			args[i] = r
		}
		w := t.Sort.W
		aw := 0
		if len(t.Args) > 0 {
			aw = t.Args[0].Sort.W
		}
		m := mask(w)
		b2u := func(b bool) uint64 {
			if b {
				return 1
			}
			return 0
		}
		for i := 0; i < 256; i++ {
			var x, y, z uint64
			if len(args) > 0 {
				x = args[0][i]
			}
			if len(args) > 1 {
				y = args[1][i]
			}
			if len(args) > 2 {
				z = args[2][i]
			}
			var r uint64
			switch t.Op {
			case ONot:
				r = x ^ 1
			case OAnd:
				r = x & y
			case OOr:
				r = x | y
			case OIte:
				if x == 1 {
					r = y
				} else {
					r = z
				}
			case OEq:
				if isFP(t.Args[0].Sort) {
					return fail()
				}
				r = b2u(x == y)
			case OAdd:
				r = (x + y) & m
			case OSub:
				r = (x - y) & m
			case OMul:
				r = (x * y) & m
			case OUDiv:
				if y == 0 {
					r = m
				} else {
					r = x / y
				}
			case OURem:
				if y == 0 {
					r = x
				} else {
					r = x % y
				}
			case OBAnd:
				r = x & y
			case OBOr:
				r = x | y
			case OBXor:
				r = x ^ y
			case OBNot:
				r = ^x & m
			case ONeg:
				r = (-x) & m
			case OShl:
				if y >= uint64(w) {
					r = 0
				} else {
					r = (x << y) & m
				}
			case OLShr:
				if y >= uint64(w) {
					r = 0
				} else {
					r = x >> y
				}
			case OAShr:
				if y >= uint64(w) {
					y = uint64(w - 1)
				}
				r = uint64(sext64(x, w)>>y) & m
			case OULt:
				r = b2u(x < y)
			case OULe:
				r = b2u(x <= y)
			case OSLt:
				r = b2u(sext64(x, aw) < sext64(y, aw))
			case OSLe:
				r = b2u(sext64(x, aw) <= sext64(y, aw))
			case OConcat:
				r = (x<<uint(t.Args[1].Sort.W) | y) & m
			case OExtract:
				r = (x >> uint(t.X1)) & m
			case OZExt:
				r = x
			case OSExt:
				r = uint64(sext64(x, aw)) & m
			case OSDiv, OSRem:
				sx, sy := sext64(x, aw), sext64(y, aw)
				if sy == 0 || sy == -1 {
					return fail()
				}
				if t.Op == OSDiv {
					r = uint64(sx/sy) & m
				} else {
					r = uint64(sx%sy) & m
				}
			case OApp:
				if t.Name == "unicode.ToLower" && len(args) == 1 {
					r = uint64(uint32(unicode.ToLower(rune(int32(uint32(x))))))
					break
				}
				f, ok := uniNative[trimUnicodePrefix(t.Name)]
				if !ok || len(args) != 1 {
					return fail()
				}
				r = b2u(f(rune(int32(uint32(x)))))
			default:
				return fail()
			}
			out[i] = r
		}
	}
	memo[t] = res
	return res, true
}

func trimUnicodePrefix(s string) string {
	const p = "unicode."
	if len(s) > len(p) && s[:len(p)] == p {
		return s[len(p):]
	}
	return ""
}

// noteLiteral narrows domains / records entanglement for an asserted literal (c == val).
func (e *Engine) noteLiteral(c *Term, val bool) {
	// split conjunctions (and negated disjunctions) so that each conjunct narrows its own variable
	switch {
	case c.Op == ONot:
		e.noteLiteral(c.Args[0], !val)
		return
	case c.Op == OAnd && val, c.Op == OOr && !val:
		e.noteLiteral(c.Args[0], val)
		e.noteLiteral(c.Args[1], val)
		return
	}
	vars := e.tt.varsOf(c)
	if len(vars) == 1 && vars[0].Sort.K == SBV && vars[0].Sort.W == 8 {
		v := vars[0]
		vec, ok := e.evalVec(c, v, map[*Term]*[256]uint64{})
		if ok {
			d := e.dom[v]
			if d == nil {
				d = fullByteSet()
				e.dom[v] = d
			}
			want := uint64(0)
			if val {
				want = 1
			}
			for x := 0; x < 256; x++ {
				if vec[x] != want {
					d.clear(x)
				}
			}
			return
		}
	}
	// anything else: every variable of the literal may be constrained in ways the domains do not see
	for _, v := range vars {
		e.entangled[v] = true
	}
}

// byteDecide tries to settle c without the solver. Returns (tFeasible, fFeasible, decided).
func (e *Engine) byteDecide(c *Term) (bool, bool, bool) {
	vars := e.tt.varsOf(c)
	if len(vars) != 1 || vars[0].Sort.K != SBV || vars[0].Sort.W != 8 {
		return false, false, false
	}
	v := vars[0]
	vec, ok := e.evalVec(c, v, map[*Term]*[256]uint64{})
	if !ok {
		return false, false, false
	}
	d := e.dom[v]
	if d == nil {
		d = fullByteSet()
		e.dom[v] = d
	}
	anyT, anyF := false, false
	for x := 0; x < 256; x++ {
		if d.has(x) {
			if vec[x] == 1 {
				anyT = true
			} else {
				anyF = true
			}
		}
	}
	switch {
	case anyT && !anyF:
		return true, false, true
	case anyF && !anyT:
		return false, true, true
	case anyT && anyF && !e.entangled[v]:
		return true, true, true
	}
	return false, false, false
}
