package main

// Models of a few more library pieces that changes to ysgo tend to pull in: sync.Map, sync.Once,
// sync.Mutex (single-threaded: no-ops), strings.Replacer, reflect.Kind.String, and a partial math.Log.

import (
	"fmt"
	"go/types"
	"math"
	"strconv"
	"strings"

	"golang.org/x/tools/go/ssa"
)

type replacerObj struct {
	olds, news []Str
}

var kindNames = []string{"invalid", "bool", "int", "int8", "int16", "int32", "int64", "uint", "uint8", "uint16", "uint32", "uint64", "uintptr",
	"float32", "float64", "complex64", "complex128", "array", "chan", "func", "interface", "map", "ptr", "slice", "string", "struct", "unsafe.Pointer"}

func (e *Engine) syncMapOf(v Value) *Map {
	p, ok := v.(*Value)
	if !ok || p == nil {
		panic(targetPanic{msg: "nil *sync.Map"})
	}
	if e.syncMaps == nil {
		e.syncMaps = map[*Value]*Map{}
	}
	m := e.syncMaps[p]
	if m == nil {
		m = &Map{kt: types.NewInterfaceType(nil, nil)}
		e.syncMaps[p] = m
	}
	return m
}

func registerLibraryModels() {
	I := stdIntrinsics
	noop := func(e *Engine, caller *frame, fn *ssa.Function, args []Value) Value { return nil }
	for _, n := range []string{"(*sync.Mutex).Lock", "(*sync.Mutex).Unlock", "(*sync.RWMutex).Lock", "(*sync.RWMutex).Unlock", "(*sync.RWMutex).RLock", "(*sync.RWMutex).RUnlock"} {
		I[n] = noop
	}
	// ---- process-level nondeterminism: hash/maphash seeds, the process id ----
	// maphash.MakeSeed: a fresh environment value per call (per process when it initialises a package-level variable);
	// maphash.String/Bytes: an uninterpreted function of (seed, length, bytes).
	I["hash/maphash.MakeSeed"] = func(e *Engine, caller *frame, fn *ssa.Function, args []Value) Value {
		e.envCtr++
		in := e.input(fmt.Sprintf("env.maphash.MakeSeed.%d", e.envCtr), "int", BVSort(64))
		return Struct{in.t}
	}
	maphashOf := func(e *Engine, seed Value, b []*Term) Value {
		st, ok := seed.(Struct)
		if !ok || len(st) != 1 {
			e.unsupported("hash/maphash with an unexpected Seed representation")
		}
		as := append([]*Term{st[0].(*Term)}, b...)
		return e.tt.App(fmt.Sprintf("maphash.%d", len(b)), BVSort(64), as...)
	}
	I["hash/maphash.String"] = func(e *Engine, caller *frame, fn *ssa.Function, args []Value) Value {
		return maphashOf(e, args[0], e.strBytes(args[1].(Str)))
	}
	I["hash/maphash.Bytes"] = func(e *Engine, caller *frame, fn *ssa.Function, args []Value) Value {
		return maphashOf(e, args[0], sliceBytes(args[1]))
	}
	I["os.Getpid"] = func(e *Engine, caller *frame, fn *ssa.Function, args []Value) Value {
		e.envCtr++
		in := e.input(fmt.Sprintf("env.os.Getpid.%d", e.envCtr), "int", BVSort(64))
		e.assume(e.tt.SLt(e.tt.IntConst(0, 64), in.t))
		return in.t
	}
	// sort.Slice / sort.SliceStable (reflectlite underneath): a stable insertion sort over the slice's cells with the
	// caller's less function -- one of the orders sort.Slice may produce, the order SliceStable must produce
	sortSlice := func(e *Engine, caller *frame, fn *ssa.Function, args []Value) Value {
		ifc, ok := args[0].(Iface)
		if !ok {
			e.unsupported("sort.Slice of a non-interface value")
		}
		s, ok := ifc.V.(Slice)
		if !ok {
			panic(targetPanic{msg: "sort.Slice: argument is not a slice"})
		}
		for i := 1; i < len(s); i++ {
			for j := i; j > 0; j-- {
				r := e.call(caller, 0, args[1], []Value{e.tt.IntConst(int64(j), 64), e.tt.IntConst(int64(j-1), 64)}).(*Term)
				if !e.decide(r) {
					break
				}
				s[j], s[j-1] = s[j-1], s[j]
			}
		}
		return nil
	}
	I["sort.Slice"] = sortSlice
	I["sort.SliceStable"] = sortSlice
	I["(*sync.Once).Do"] = func(e *Engine, caller *frame, fn *ssa.Function, args []Value) Value {
		p := args[0].(*Value)
		if e.onceDone == nil {
			e.onceDone = map[*Value]bool{}
		}
		if !e.onceDone[p] {
			e.onceDone[p] = true
			e.call(caller, 0, args[1], nil)
		}
		return nil
	}
	// sync.Pool: Get returns an item put earlier (the most recent one: one of the behaviours the contract
	// allows, and the one a single goroutine sees in practice) or New(), or nil without New.
	I["(*sync.Pool).Put"] = func(e *Engine, caller *frame, fn *ssa.Function, args []Value) Value {
		p := args[0].(*Value)
		if e.pools == nil {
			e.pools = map[*Value][]Value{}
		}
		if it, ok := args[1].(Iface); ok && it.T == nil {
			return nil // Put(nil) is a no-op
		}
		e.pools[p] = append(e.pools[p], args[1])
		return nil
	}
	I["(*sync.Pool).Get"] = func(e *Engine, caller *frame, fn *ssa.Function, args []Value) Value {
		p := args[0].(*Value)
		if items := e.pools[p]; len(items) > 0 {
			it := items[len(items)-1]
			e.pools[p] = items[:len(items)-1]
			return it
		}
		st := (*p).(Struct)
		newFn := st[len(st)-1] // the New field is the last one of sync.Pool
		if isNilFunc(newFn) {
			return Iface{}
		}
		return e.call(caller, 0, newFn, nil)
	}
	I["(*sync.Map).Load"] = func(e *Engine, caller *frame, fn *ssa.Function, args []Value) Value {
		m := e.syncMapOf(args[0])
		if i := e.mapFind(m, args[1]); i >= 0 {
			return Tuple{copyVal(m.entries[i].v), e.tt.True}
		}
		return Tuple{Iface{}, e.tt.False}
	}
	I["(*sync.Map).Store"] = func(e *Engine, caller *frame, fn *ssa.Function, args []Value) Value {
		e.mapInsert(e.syncMapOf(args[0]), args[1], args[2])
		return nil
	}
	I["(*sync.Map).LoadOrStore"] = func(e *Engine, caller *frame, fn *ssa.Function, args []Value) Value {
		m := e.syncMapOf(args[0])
		if i := e.mapFind(m, args[1]); i >= 0 {
			return Tuple{copyVal(m.entries[i].v), e.tt.True}
		}
		e.mapInsert(m, args[1], args[2])
		return Tuple{args[2], e.tt.False}
	}
	I["(*sync.Map).Delete"] = func(e *Engine, caller *frame, fn *ssa.Function, args []Value) Value {
		e.mapDelete(e.syncMapOf(args[0]), args[1])
		return nil
	}
	I["maps.clone"] = func(e *Engine, caller *frame, fn *ssa.Function, args []Value) Value {
		itf := args[0].(Iface)
		m, ok := itf.V.(*Map)
		if !ok || m == nil {
			return itf
		}
		c := &Map{kt: m.kt}
		for _, en := range m.entries {
			c.entries = append(c.entries, mapEntry{copyVal(en.k), copyVal(en.v)})
		}
		return Iface{T: itf.T, V: c}
	}
	I["(reflect.Kind).String"] = func(e *Engine, caller *frame, fn *ssa.Function, args []Value) Value {
		k := args[0].(*Term)
		if !k.IsConst() || int(k.BV) >= len(kindNames) {
			e.unsupported("reflect.Kind.String of a symbolic kind")
		}
		return Str{s: kindNames[k.BV]}
	}
	I["strings.NewReplacer"] = func(e *Engine, caller *frame, fn *ssa.Function, args []Value) Value {
		pairs := args[0].(Slice)
		if len(pairs)%2 == 1 {
			panic(targetPanic{msg: "strings.NewReplacer: odd argument count"})
		}
		r := &replacerObj{}
		for i := 0; i < len(pairs); i += 2 {
			o := pairs[i].(Str)
			if o.Len() == 0 {
				e.unsupported("strings.NewReplacer with an empty old string")
			}
			r.olds = append(r.olds, o)
			r.news = append(r.news, pairs[i+1].(Str))
		}
		cell := Value(r)
		return &cell
	}
	I["(*strings.Replacer).Replace"] = func(e *Engine, caller *frame, fn *ssa.Function, args []Value) Value {
		r, ok := (*args[0].(*Value)).(*replacerObj)
		if !ok {
			e.unsupported("strings.Replacer not built by strings.NewReplacer")
		}
		s := args[1].(Str)
		var out []*Term
		for i := 0; i < s.Len(); {
			matched := false
			for k, o := range r.olds { // comparisons are done in argument order, at each position, without overlap
				if i+o.Len() <= s.Len() && e.decide(e.strEq(e.strSlice(s, i, i+o.Len()), o)) {
					out = append(out, e.strBytes(r.news[k])...)
					i += o.Len()
					matched = true
					break
				}
			}
			if !matched {
				out = append(out, e.strByte(s, i))
				i++
			}
		}
		return e.mkStr(out)
	}
	// strconv formatting of symbolic numbers: integers exactly (digit terms), floats as an opaque string
	I["strconv.FormatInt"] = func(e *Engine, caller *frame, fn *ssa.Function, args []Value) Value {
		if concreteIntArg(e, args[1], "FormatInt base") != 10 {
			if args[0].(*Term).IsConst() {
				return notHandled
			}
			e.unsupported("strconv.FormatInt of a symbolic value in a base other than 10")
		}
		return e.itoa(args[0].(*Term))
	}
	I["strconv.AppendInt"] = func(e *Engine, caller *frame, fn *ssa.Function, args []Value) Value {
		if concreteIntArg(e, args[2], "AppendInt base") != 10 {
			if args[1].(*Term).IsConst() {
				return notHandled
			}
			e.unsupported("strconv.AppendInt of a symbolic value in a base other than 10")
		}
		dst := args[0].(Slice)
		for _, b := range e.strBytes(e.itoa(args[1].(*Term))) {
			dst = append(dst, b)
		}
		return dst
	}
	opaqueFloat := func(e *Engine) Str {
		e.envCtr++
		in := e.inputBytes(fmt.Sprintf("env.strconv.FormatFloat.%d", e.envCtr), 3)
		e.noteStub("strconv.FormatFloat(symbolic float) -> opaque 3-byte string")
		return e.mkStr(in.bs)
	}
	nativeFloat := func(e *Engine, x *Term, f, prec, bits Value) Str {
		return Str{s: strconv.FormatFloat(x.F64(), byte(concreteIntArg(e, f, "fmt")), int(concreteIntArg(e, prec, "prec")), int(concreteIntArg(e, bits, "bitSize")))}
	}
	I["strconv.FormatFloat"] = func(e *Engine, caller *frame, fn *ssa.Function, args []Value) Value {
		if x := args[0].(*Term); x.IsConst() {
			return nativeFloat(e, x, args[1], args[2], args[3])
		}
		return opaqueFloat(e)
	}
	I["strconv.AppendFloat"] = func(e *Engine, caller *frame, fn *ssa.Function, args []Value) Value {
		dst := args[0].(Slice)
		var s Str
		if x := args[1].(*Term); x.IsConst() {
			s = nativeFloat(e, x, args[2], args[3], args[4])
		} else {
			s = opaqueFloat(e)
		}
		for _, b := range e.strBytes(s) {
			dst = append(dst, b)
		}
		return dst
	}
	I["math.Log"] = func(e *Engine, caller *frame, fn *ssa.Function, args []Value) Value {
		x := args[0].(*Term)
		tt := e.tt
		if x.IsConst() {
			return tt.F64Const(math.Log(x.F64()))
		}
		// the special cases are exact; a positive finite symbolic argument is not modelled
		if e.decide(tt.FIsNaN(x)) || e.decide(tt.FLt(x, tt.F64Const(0))) {
			return tt.F64Const(math.NaN())
		}
		if e.decide(tt.FEq(x, tt.F64Const(0))) {
			return tt.F64Const(math.Inf(-1))
		}
		if e.decide(tt.Eq(x, tt.F64Const(math.Inf(1)))) {
			return tt.F64Const(math.Inf(1))
		}
		// an answer of the environment (global random source, clock, ...) converted to a float: the environment is
		// narrowed to three representative answers (1, a four-digit base-36 value, a value above 2^62), chosen by
		// forking -- each is an answer the real environment can give, so a counterexample replays; stated as a bound
		if x.Op == OSBVToFP && x.Args[0].Op == OVar && strings.HasPrefix(x.Args[0].Name, "env.") {
			v := x.Args[0]
			for _, c := range []int64{1, 46661, 1<<62 + 12345} {
				if e.decide(tt.Eq(v, tt.IntConst(c, v.Sort.W))) {
					e.x.mu.Lock()
					e.x.bounds["environment answers narrowed to {1, 46661, 2^62+12345} where their logarithm is taken"] = 1
					e.x.mu.Unlock()
					return tt.F64Const(math.Log(float64(c)))
				}
			}
			panic(pathEnd{kind: "assume"})
		}
		e.unsupported("math.Log of a positive symbolic value")
		return nil
	}
	_ = fmt.Sprint
}
