package main

// Intrinsics: the harness prelude (v* functions) and the callees that are not
// executed from their SSA (DESIGN 3.6). Everything here is trusted base and is
// reported in the evidence as stubs_hit.

import (
	"encoding/hex"
	"fmt"
	"go/types"
	"math"
	"runtime"
	"strconv"
	"strings"
	"unicode"

	"golang.org/x/tools/go/ssa"
)

type intrinsic func(e *Engine, caller *frame, fn *ssa.Function, args []Value) Value

func runtimeStack(buf []byte) int { return runtime.Stack(buf, false) }

func hexEncode(b []byte) string { return hex.EncodeToString(b) }
func hexDecode(s string) []byte {
	b, _ := hex.DecodeString(s)
	return b
}

func (e *Engine) findIntrinsic(fn *ssa.Function, name string) intrinsic {
	if in, ok := e.intrCache[fn]; ok {
		return in
	}
	if e.intrMiss[fn] {
		return nil
	}
	var in intrinsic
	if fn.Pkg != nil && strings.HasPrefix(fn.Pkg.Pkg.Path(), "github.com/remieven/ysgo") && strings.HasPrefix(fn.Name(), "v") {
		in = preludeIntrinsics[fn.Name()]
	}
	if in == nil {
		in = stdIntrinsics[name]
	}
	if in == nil && fn.Synthetic == "package initializer" {
		if !e.initAllowed(fn.Pkg.Pkg.Path()) {
			in = func(e *Engine, caller *frame, fn *ssa.Function, args []Value) Value { return nil }
		}
	}
	if in == nil {
		e.intrMiss[fn] = true
		return nil
	}
	e.intrCache[fn] = in
	return in
}

var initPkgs = map[string]bool{
	"io":      true,
	"strconv": true,
}

func (e *Engine) initAllowed(path string) bool {
	if strings.HasPrefix(path, "github.com/remieven/ysgo") {
		return true
	}
	if e.cfg.Params["initantlr"] != 0 && path == "github.com/antlr4-go/antlr/v4" {
		return true
	}
	return initPkgs[path]
}

func (e *Engine) constFromReplay(kind string, s Sort, c replayInput) *Term {
	switch kind {
	case "bool":
		return e.tt.Bool(c.V == "true")
	case "f64":
		if c.V == "" {
			return e.tt.F64Const(0)
		}
		bits, _ := strconv.ParseUint(strings.TrimPrefix(c.V, "0x"), 16, 64)
		return e.tt.mk(&Term{Op: OConst, Sort: F64Sort, BV: bits})
	default:
		if c.V == "" {
			return e.tt.BVConst(0, s.W)
		}
		v, _ := strconv.ParseInt(c.V, 10, 64)
		return e.tt.IntConst(v, s.W)
	}
}

func (e *Engine) replayFromConst(kind string, t *Term) replayInput {
	switch kind {
	case "bool":
		return replayInput{T: "bool", V: fmt.Sprint(t.BV == 1)}
	case "f64":
		return replayInput{T: "f64", V: fmt.Sprintf("0x%016x", t.BV)}
	case "u8":
		return replayInput{T: kind, V: fmt.Sprint(t.BV)}
	default:
		return replayInput{T: kind, V: fmt.Sprint(t.Int())}
	}
}

func concreteStr(e *Engine, v Value, what string) string {
	s := v.(Str)
	if !s.IsConcrete() {
		panic(engineError{what + " must be a concrete string"})
	}
	return s.s
}

func concreteIntArg(e *Engine, v Value, what string) int64 {
	t := v.(*Term)
	if !t.IsConst() {
		panic(engineError{what + " must be a concrete integer"})
	}
	return t.Int()
}

var preludeIntrinsics map[string]intrinsic

func init() {
	preludeIntrinsics = map[string]intrinsic{
		"vInt": func(e *Engine, caller *frame, fn *ssa.Function, args []Value) Value {
			return e.input(concreteStr(e, args[0], "input name"), "int", BVSort(64)).t
		},
		"vBool": func(e *Engine, caller *frame, fn *ssa.Function, args []Value) Value {
			return e.input(concreteStr(e, args[0], "input name"), "bool", BoolSort).t
		},
		"vByte": func(e *Engine, caller *frame, fn *ssa.Function, args []Value) Value {
			return e.input(concreteStr(e, args[0], "input name"), "u8", BVSort(8)).t
		},
		"vInt32": func(e *Engine, caller *frame, fn *ssa.Function, args []Value) Value {
			return e.input(concreteStr(e, args[0], "input name"), "i32", BVSort(32)).t
		},
		"vExactInt": func(e *Engine, caller *frame, fn *ssa.Function, args []Value) Value {
			x := args[0].(*Term)
			if x.Op == OSBVToFP && x.Args[0].Sort.W == 64 {
				return Tuple{x.Args[0], e.tt.True}
			}
			if x.Op == OSBVToFP {
				return Tuple{e.tt.SExt(x.Args[0], 64), e.tt.True}
			}
			tt := e.tt
			inR := tt.And(tt.FLt(tt.F64Const(-9.2e18), x), tt.FLt(x, tt.F64Const(9.2e18)))
			i := e.f2i(x, 64)
			return Tuple{tt.Ite(inR, i, tt.IntConst(0, 64)), tt.And(inR, tt.FEq(tt.SBVToFP(i, F64Sort), x))}
		},
		"vRune": func(e *Engine, caller *frame, fn *ssa.Function, args []Value) Value {
			return e.input(concreteStr(e, args[0], "input name"), "i32", BVSort(32)).t
		},
		"vFloat": func(e *Engine, caller *frame, fn *ssa.Function, args []Value) Value {
			return e.input(concreteStr(e, args[0], "input name"), "f64", F64Sort).t
		},
		"vString": func(e *Engine, caller *frame, fn *ssa.Function, args []Value) Value {
			n := concreteIntArg(e, args[1], "vString length")
			in := e.inputBytes(concreteStr(e, args[0], "input name"), int(n))
			return e.mkStr(in.bs)
		},
		"vIntRange": func(e *Engine, caller *frame, fn *ssa.Function, args []Value) Value {
			in := e.input(concreteStr(e, args[0], "input name"), "int", BVSort(64))
			lo, hi := args[1].(*Term), args[2].(*Term)
			e.assume(e.tt.And(e.tt.SLe(lo, in.t), e.tt.SLe(in.t, hi)))
			if lo.IsConst() && hi.IsConst() && lo.Int() > -(1<<53) && hi.Int() < 1<<53 {
				e.smallInts[in.t] = true
			}
			return in.t
		},
		"vChoose": func(e *Engine, caller *frame, fn *ssa.Function, args []Value) Value {
			n := concreteIntArg(e, args[1], "vChoose bound")
			if n <= 0 {
				panic(pathEnd{kind: "assume"})
			}
			name := concreteStr(e, args[0], "input name")
			if c, ok := e.cfg.Concrete[name]; e.cfg.Concrete != nil {
				v := int64(0)
				if ok {
					v, _ = strconv.ParseInt(c.V, 10, 64)
				}
				e.input(name, "int", BVSort(64))
				if v < 0 || v >= n {
					panic(pathEnd{kind: "assume"})
				}
				return e.tt.IntConst(v, 64)
			}
			return e.tt.IntConst(int64(e.chooseEnv(name, int(n))), 64)
		},
		"vAssume": func(e *Engine, caller *frame, fn *ssa.Function, args []Value) Value {
			e.assume(args[0].(*Term))
			return nil
		},
		"vAssert": func(e *Engine, caller *frame, fn *ssa.Function, args []Value) Value {
			e.assertObl(args[0].(*Term), concreteStr(e, args[1], "assert label"))
			return nil
		},
		"vReach": func(e *Engine, caller *frame, fn *ssa.Function, args []Value) Value {
			e.markersHit[concreteStr(e, args[0], "marker")] = true
			return nil
		},
		"vTry": func(e *Engine, caller *frame, fn *ssa.Function, args []Value) (res Value) {
			depth := e.depth
			defer func() {
				if r := recover(); r != nil {
					if _, ok := r.(targetPanic); ok {
						e.depth = depth
						res = e.tt.True
						return
					}
					panic(r)
				}
			}()
			e.call(caller, 0, args[0], nil)
			return e.tt.False
		},
		// vOtherProcess(label, f): f runs "in another process": package-level state is initialised afresh (with its
		// own environment answers) for the call, and the caller's package-level state is put back afterwards.
		"vOtherProcess": func(e *Engine, caller *frame, fn *ssa.Function, args []Value) Value {
			saved, savedInit := e.globals, e.inInit
			e.globals = map[*ssa.Global]*Value{}
			e.inInit = true
			for _, p := range e.x.initPkgs {
				e.runInit(p)
			}
			e.inInit = savedInit
			defer func() { e.globals = saved }()
			return e.call(caller, 0, args[1], nil)
		},
		"vParam": func(e *Engine, caller *frame, fn *ssa.Function, args []Value) Value {
			name := concreteStr(e, args[0], "param name")
			v, ok := e.cfg.Params[name]
			if !ok {
				v = concreteIntArg(e, args[1], "param default")
			}
			e.x.mu.Lock()
			e.x.bounds[name] = v
			e.x.mu.Unlock()
			return e.tt.IntConst(v, 64)
		},
		"vObserve": func(e *Engine, caller *frame, fn *ssa.Function, args []Value) Value {
			if e.cfg.Concrete != nil {
				e.observed = append(e.observed, concreteStr(e, args[0], "observe label")+"="+e.observeString(args[1]))
			}
			return nil
		},
		"vRunGoroutines": func(e *Engine, caller *frame, fn *ssa.Function, args []Value) Value {
			for e.runOneGoroutine() {
			}
			return nil
		},
		"vPendingGoroutines": func(e *Engine, caller *frame, fn *ssa.Function, args []Value) Value {
			return e.tt.IntConst(int64(len(e.goroutines)), 64)
		},
		"vNowNs": func(e *Engine, caller *frame, fn *ssa.Function, args []Value) Value {
			return e.now()
		},
		"vKnown": func(e *Engine, caller *frame, fn *ssa.Function, args []Value) Value {
			return e.tt.Bool(e.cfg.Known[concreteStr(e, args[0], "finding id")])
		},
		"vFloatSame": func(e *Engine, caller *frame, fn *ssa.Function, args []Value) Value {
			return e.tt.Eq(args[0].(*Term), args[1].(*Term))
		},
		"vOr": func(e *Engine, caller *frame, fn *ssa.Function, args []Value) Value {
			return e.tt.Or(args[0].(*Term), args[1].(*Term))
		},
		"vAnd": func(e *Engine, caller *frame, fn *ssa.Function, args []Value) Value {
			return e.tt.And(args[0].(*Term), args[1].(*Term))
		},
		"vImplies": func(e *Engine, caller *frame, fn *ssa.Function, args []Value) Value {
			return e.tt.Or(e.tt.Not(args[0].(*Term)), args[1].(*Term))
		},
		"vSymbolic": func(e *Engine, caller *frame, fn *ssa.Function, args []Value) Value {
			return e.tt.Bool(e.cfg.Concrete == nil)
		},
	}
}

func (e *Engine) now() *Term {
	if e.clock == nil {
		e.clock = e.tt.IntConst(0, 64)
	}
	return e.clock
}

// observeString renders a concrete value for the selftest comparison.
func (e *Engine) observeString(v Value) string {
	switch v := v.(type) {
	case Iface:
		if v.T == nil {
			return "nil"
		}
		return e.observeString(v.V)
	case *Term:
		if !v.IsConst() {
			return "<sym>"
		}
		switch v.Sort.K {
		case SBool:
			return fmt.Sprint(v.BV == 1)
		case SBV:
			return fmt.Sprint(v.Int())
		case SF64:
			return fmt.Sprintf("%016x", v.BV)
		case SF32:
			return fmt.Sprintf("%08x", v.BV)
		}
	case Str:
		if v.IsConcrete() {
			return fmt.Sprintf("%q", v.s)
		}
		return "<symstr>"
	}
	return fmt.Sprintf("<%T>", v)
}

// ---- stdlib ----

var stdIntrinsics map[string]intrinsic

func sliceBytes(v Value) []*Term {
	s := v.(Slice)
	out := make([]*Term, len(s))
	for i := range s {
		out[i] = s[i].(*Term)
	}
	return out
}

func bytesSlice(b []*Term) Slice {
	out := make(Slice, len(b))
	for i := range b {
		out[i] = b[i]
	}
	return out
}

// builderBuf returns the address of the buf field of a *strings.Builder.
func builderBuf(args []Value) *Value {
	p := args[0].(*Value)
	if p == nil {
		panic(targetPanic{msg: "nil *strings.Builder"})
	}
	return &(*p).(Struct)[1]
}

func f64fn(f func(e *Engine, x *Term) *Term) intrinsic {
	return func(e *Engine, caller *frame, fn *ssa.Function, args []Value) Value {
		return f(e, args[0].(*Term))
	}
}

func (e *Engine) nativeF64(name string, f func(float64) float64) intrinsic {
	return func(e *Engine, caller *frame, fn *ssa.Function, args []Value) Value {
		x := args[0].(*Term)
		if !x.IsConst() {
			e.unsupported("%s of a symbolic value", name)
		}
		return e.tt.F64Const(f(x.F64()))
	}
}

func init() {
	stdIntrinsics = map[string]intrinsic{
		// ---- strings.Builder (model: the buf field is the accumulator) ----
		"(*strings.Builder).WriteString": func(e *Engine, caller *frame, fn *ssa.Function, args []Value) Value {
			buf := builderBuf(args)
			s := args[1].(Str)
			cur, _ := (*buf).(Slice)
			for i := 0; i < s.Len(); i++ {
				cur = append(cur, e.strByte(s, i))
			}
			*buf = cur
			return Tuple{e.tt.IntConst(int64(s.Len()), 64), Iface{}}
		},
		"(*strings.Builder).WriteRune": func(e *Engine, caller *frame, fn *ssa.Function, args []Value) Value {
			buf := builderBuf(args)
			enc := e.encodeRune(args[1].(*Term))
			cur, _ := (*buf).(Slice)
			for _, b := range enc {
				cur = append(cur, b)
			}
			*buf = cur
			return Tuple{e.tt.IntConst(int64(len(enc)), 64), Iface{}}
		},
		"(*strings.Builder).WriteByte": func(e *Engine, caller *frame, fn *ssa.Function, args []Value) Value {
			buf := builderBuf(args)
			cur, _ := (*buf).(Slice)
			*buf = append(cur, args[1])
			return Iface{}
		},
		"(*strings.Builder).String": func(e *Engine, caller *frame, fn *ssa.Function, args []Value) Value {
			buf := builderBuf(args)
			cur, _ := (*buf).(Slice)
			return e.mkStr(sliceBytes(cur))
		},
		"(*strings.Builder).Len": func(e *Engine, caller *frame, fn *ssa.Function, args []Value) Value {
			buf := builderBuf(args)
			cur, _ := (*buf).(Slice)
			return e.tt.IntConst(int64(len(cur)), 64)
		},
		"(*strings.Builder).Reset": func(e *Engine, caller *frame, fn *ssa.Function, args []Value) Value {
			*builderBuf(args) = Slice(nil)
			return nil
		},
		"(*strings.Builder).Grow": func(e *Engine, caller *frame, fn *ssa.Function, args []Value) Value {
			return nil
		},
		"internal/stringslite.Clone": func(e *Engine, caller *frame, fn *ssa.Function, args []Value) Value {
			return args[0]
		},
		"strings.Clone": func(e *Engine, caller *frame, fn *ssa.Function, args []Value) Value {
			return args[0]
		},
		// ---- utf8 ----
		"unicode/utf8.DecodeRuneInString": func(e *Engine, caller *frame, fn *ssa.Function, args []Value) Value {
			r, n := e.decodeRune(e.strBytes(args[0].(Str)))
			return Tuple{r, e.tt.IntConst(int64(n), 64)}
		},
		"unicode/utf8.DecodeRune": func(e *Engine, caller *frame, fn *ssa.Function, args []Value) Value {
			r, n := e.decodeRune(sliceBytes(args[0]))
			return Tuple{r, e.tt.IntConst(int64(n), 64)}
		},
		"unicode/utf8.AppendRune": func(e *Engine, caller *frame, fn *ssa.Function, args []Value) Value {
			cur := args[0].(Slice)
			for _, b := range e.encodeRune(args[1].(*Term)) {
				cur = append(cur, b)
			}
			return cur
		},
		"unicode/utf8.EncodeRune": func(e *Engine, caller *frame, fn *ssa.Function, args []Value) Value {
			dst := args[0].(Slice)
			enc := e.encodeRune(args[1].(*Term))
			if len(dst) < len(enc) {
				panic(targetPanic{msg: "runtime error: index out of range (EncodeRune)"})
			}
			for i, b := range enc {
				dst[i] = b
			}
			return e.tt.IntConst(int64(len(enc)), 64)
		},
		"unicode/utf8.RuneCountInString": func(e *Engine, caller *frame, fn *ssa.Function, args []Value) Value {
			b := e.strBytes(args[0].(Str))
			n := 0
			for i := 0; i < len(b); {
				_, w := e.decodeRune(b[i:])
				i += w
				n++
			}
			return e.tt.IntConst(int64(n), 64)
		},
		"unicode/utf8.ValidString": func(e *Engine, caller *frame, fn *ssa.Function, args []Value) Value {
			b := e.strBytes(args[0].(Str))
			for i := 0; i < len(b); {
				r, w := e.decodeRune(b[i:])
				if w == 1 && r.IsConst() && r.BV == 0xFFFD {
					return e.tt.False
				}
				i += w
			}
			return e.tt.True
		},
		// ---- unicode predicates (exact tables, see preamble) ----
		"unicode.IsSpace": func(e *Engine, caller *frame, fn *ssa.Function, args []Value) Value {
			return e.uniPred("IsSpace", args[0].(*Term))
		},
		"unicode.IsDigit": func(e *Engine, caller *frame, fn *ssa.Function, args []Value) Value {
			return e.uniPred("IsDigit", args[0].(*Term))
		},
		"unicode.IsLetter": func(e *Engine, caller *frame, fn *ssa.Function, args []Value) Value {
			return e.uniPred("IsLetter", args[0].(*Term))
		},
		"unicode.IsUpper": func(e *Engine, caller *frame, fn *ssa.Function, args []Value) Value {
			return e.uniPred("IsUpper", args[0].(*Term))
		},
		"unicode.ToLower": func(e *Engine, caller *frame, fn *ssa.Function, args []Value) Value {
			r := args[0].(*Term)
			if r.IsConst() {
				return e.tt.IntConst(int64(unicode.ToLower(rune(r.Int()))), 32)
			}
			// exact: the real unicode.CaseRanges table compiled into an SMT function (see installPreamble)
			return e.tt.App("unicode.ToLower", BVSort(32), r)
		},
		// ---- fmt / errors (contract stubs: message text is not modelled) ----
		"fmt.Errorf": func(e *Engine, caller *frame, fn *ssa.Function, args []Value) Value {
			return e.mkFmtError(fn, args)
		},
		"fmt.Sprintf": func(e *Engine, caller *frame, fn *ssa.Function, args []Value) Value {
			f := args[0].(Str)
			va := args[1].(Slice)
			if f.IsConcrete() {
				if s, ok := e.nativeFormat(f.s, va); ok {
					return Str{s: s}
				}
			}
			if f.IsConcrete() {
				if out, ok := e.symbolicFormat(f.s, va); ok {
					return out
				}
			}
			e.unsupported("fmt.Sprintf with symbolic operands")
			return nil
		},
		"fmt.Sprint": func(e *Engine, caller *frame, fn *ssa.Function, args []Value) Value {
			va := args[0].(Slice)
			if len(va) == 1 {
				if s, ok := e.nativeFormat("%v", va); ok {
					// fmt.Sprint(x) == Sprintf("%v", x) for a single operand
					return Str{s: s}
				}
			}
			// a symbolic number: the digits are strconv's business; hand back an opaque 3-byte string
			if len(va) == 1 {
				if itf, ok := va[0].(Iface); ok && itf.T != nil {
					if t, ok := itf.V.(*Term); ok && isFP(t.Sort) {
						e.envCtr++
						in := e.inputBytes(fmt.Sprintf("env.fmt.Sprint.%d", e.envCtr), 3)
						e.noteStub("fmt.Sprint(symbolic float) -> opaque 3-byte string")
						return e.mkStr(in.bs)
					}
				}
			}
			e.unsupported("fmt.Sprint with symbolic operands")
			return nil
		},
		"fmt.Println": func(e *Engine, caller *frame, fn *ssa.Function, args []Value) Value {
			return Tuple{e.tt.IntConst(0, 64), Iface{}}
		},
		"fmt.Printf": func(e *Engine, caller *frame, fn *ssa.Function, args []Value) Value {
			return Tuple{e.tt.IntConst(0, 64), Iface{}}
		},
		// ---- math ----
		"math.Floor":       f64fn(func(e *Engine, x *Term) *Term { return e.tt.FRound(x, RTN) }),
		"math.Ceil":        f64fn(func(e *Engine, x *Term) *Term { return e.tt.FRound(x, RTP) }),
		"math.Trunc":       f64fn(func(e *Engine, x *Term) *Term { return e.tt.FRound(x, RTZ) }),
		"math.Round":       f64fn(func(e *Engine, x *Term) *Term { return e.tt.FRound(x, RNA) }),
		"math.RoundToEven": f64fn(func(e *Engine, x *Term) *Term { return e.tt.FRound(x, RNE) }),
		"math.Abs":         f64fn(func(e *Engine, x *Term) *Term { return e.tt.FAbs(x) }),
		"math.IsNaN":       f64fn(func(e *Engine, x *Term) *Term { return e.tt.FIsNaN(x) }),
		"math.IsInf": func(e *Engine, caller *frame, fn *ssa.Function, args []Value) Value {
			x := args[0].(*Term)
			sign := concreteIntArg(e, args[1], "math.IsInf sign")
			switch {
			case sign > 0:
				return e.tt.Eq(x, e.tt.F64Const(math.Inf(1)))
			case sign < 0:
				return e.tt.Eq(x, e.tt.F64Const(math.Inf(-1)))
			}
			return e.tt.FIsInf(x)
		},
		"math.Inf": func(e *Engine, caller *frame, fn *ssa.Function, args []Value) Value {
			return e.tt.F64Const(math.Inf(int(concreteIntArg(e, args[0], "math.Inf sign"))))
		},
		"math.NaN": func(e *Engine, caller *frame, fn *ssa.Function, args []Value) Value {
			return e.tt.F64Const(math.NaN())
		},
		"math.Modf": func(e *Engine, caller *frame, fn *ssa.Function, args []Value) Value {
			x := args[0].(*Term)
			tt := e.tt
			ip := tt.FRound(x, RTZ)
			frac := tt.Ite(tt.FIsInf(x), tt.F64Const(math.NaN()), tt.FSub(x, ip))
			// Modf(-0.5) = (-0, -0.5); FSub gives +0 for x == ip: keep the sign of x as math.Modf does
			frac = tt.Ite(tt.And(tt.FEq(frac, tt.F64Const(0)), tt.FLt(x, tt.F64Const(0))), tt.F64Const(math.Copysign(0, -1)), frac)
			return Tuple{ip, frac}
		},
		"math.Float64bits": func(e *Engine, caller *frame, fn *ssa.Function, args []Value) Value {
			x := args[0].(*Term)
			if x.IsConst() {
				return e.tt.BVConst(x.BV, 64)
			}
			e.unsupported("math.Float64bits of a symbolic value")
			return nil
		},
		"math.Float64frombits": func(e *Engine, caller *frame, fn *ssa.Function, args []Value) Value {
			x := args[0].(*Term)
			if x.IsConst() {
				return e.tt.F64Const(math.Float64frombits(x.BV))
			}
			e.unsupported("math.Float64frombits of a symbolic value")
			return nil
		},
		"math.Mod": func(e *Engine, caller *frame, fn *ssa.Function, args []Value) Value {
			x, y := args[0].(*Term), args[1].(*Term)
			if x.IsConst() && y.IsConst() {
				return e.tt.F64Const(math.Mod(x.F64(), y.F64()))
			}
			// integer-valued operands float64(i), float64(j) with |i|,|j| < 2^53 (64-bit i, j: the harness bounds them):
			// fmod is the truncated integer remainder, a zero result taking the sign of x; j == 0 gives NaN.
			if x.Op == OSBVToFP && y.Op == OSBVToFP && x.Sort == F64Sort && y.Sort == F64Sort &&
				x.Args[0].Sort.W == 64 && y.Args[0].Sort.W == 64 && e.smallInt(x.Args[0]) && e.smallInt(y.Args[0]) {
				tt := e.tt
				i, j := x.Args[0], y.Args[0]
				zero := tt.IntConst(0, 64)
				jj := tt.Ite(tt.Eq(j, zero), tt.IntConst(1, 64), j)
				r := tt.SRem(i, jj)
				val := tt.Ite(tt.And(tt.Eq(r, zero), tt.SLt(i, zero)), tt.F64Const(math.Copysign(0, -1)), tt.SBVToFP(r, F64Sort))
				return tt.Ite(tt.Eq(j, zero), tt.F64Const(math.NaN()), val)
			}
			return e.tt.App("math.Mod", F64Sort, x, y)
		},
		"math.Pow10": func(e *Engine, caller *frame, fn *ssa.Function, args []Value) Value {
			n := args[0].(*Term)
			if n.IsConst() {
				return e.tt.F64Const(math.Pow10(int(n.Int())))
			}
			// small symbolic exponent: ite chain over [-8,16]
			r := e.tt.App("math.Pow10", F64Sort, n)
			for k := int64(16); k >= -8; k-- {
				r = e.tt.Ite(e.tt.Eq(n, e.tt.IntConst(k, 64)), e.tt.F64Const(math.Pow10(int(k))), r)
			}
			return r
		},
		"math.Pow": func(e *Engine, caller *frame, fn *ssa.Function, args []Value) Value {
			x, y := args[0].(*Term), args[1].(*Term)
			if x.IsConst() && y.IsConst() {
				return e.tt.F64Const(math.Pow(x.F64(), y.F64()))
			}
			e.unsupported("math.Pow of symbolic values")
			return nil
		},
		// ---- time (virtual clock) ----
		"time.Sleep": func(e *Engine, caller *frame, fn *ssa.Function, args []Value) Value {
			d := args[0].(*Term)
			e.sleeps = append(e.sleeps, d)
			pos := e.tt.Ite(e.tt.SLt(e.tt.IntConst(0, 64), d), d, e.tt.IntConst(0, 64))
			e.clock = e.tt.Add(e.now(), pos)
			return nil
		},
		// ---- strconv ----
		"strconv.Itoa": func(e *Engine, caller *frame, fn *ssa.Function, args []Value) Value {
			return e.itoa(args[0].(*Term))
		},
		"strconv.ParseFloat": func(e *Engine, caller *frame, fn *ssa.Function, args []Value) Value {
			return e.parseFloat(fn, args[0].(Str), concreteIntArg(e, args[1], "bitSize"))
		},
	}
	registerMoreIntrinsics()
}

// itoa renders a (possibly symbolic) int: the digit count is decided by forking,
// the digits are bvudiv/bvurem terms.
func (e *Engine) itoa(x *Term) Str {
	tt := e.tt
	if x.IsConst() {
		return Str{s: strconv.Itoa(int(x.Int()))}
	}
	neg := e.decide(tt.SLt(x, tt.IntConst(0, 64)))
	var mag *Term // unsigned magnitude
	if neg {
		mag = tt.Neg(x)
	} else {
		mag = x
	}
	digits := 1
	pow := uint64(10)
	for digits < 20 {
		if e.decide(tt.ULt(mag, tt.BVConst(pow, 64))) {
			break
		}
		digits++
		if digits == 20 {
			break
		}
		pow *= 10
	}
	out := make([]*Term, 0, digits+1)
	if neg {
		out = append(out, tt.BVConst('-', 8))
	}
	ds := make([]*Term, digits)
	// mag < 10^digits on this path: divide in the narrowest sufficient width
	w := 64
	switch {
	case digits <= 2:
		w = 8
	case digits <= 4:
		w = 16
	case digits <= 9:
		w = 32
	}
	cur := tt.Extract(mag, w-1, 0)
	for i := digits - 1; i >= 0; i-- {
		d := tt.URem(cur, tt.BVConst(10, w))
		ds[i] = tt.Add(tt.Extract(d, 7, 0), tt.BVConst('0', 8))
		cur = tt.UDiv(cur, tt.BVConst(10, w))
	}
	out = append(out, ds...)
	return e.mkStr(out)
}

// mkFmtError builds a *fmt.wrapError / *fmt.fmtError-like value: a fresh non-nil
// error remembering the first wrapped error argument. Message text = the format string.
func (e *Engine) mkFmtError(fn *ssa.Function, args []Value) Value {
	format := args[0].(Str)
	va, _ := args[1].(Slice)
	var wrapped Value = Iface{}
	hasW := !format.IsConcrete() || strings.Contains(format.s, "%w")
	if hasW {
		for _, a := range va {
			if itf, ok := a.(Iface); ok && itf.T != nil && e.implements(itf.T, errorType(fn)) {
				wrapped = itf
				break
			}
		}
	}
	fmtPkg := e.prog.ImportedPackage("fmt")
	if fmtPkg == nil {
		panic(engineError{"fmt package not loaded"})
	}
	if w, ok := wrapped.(Iface); ok && w.T != nil {
		t := fmtPkg.Type("wrapError")
		cell := Value(Struct{format, wrapped})
		return Iface{T: types.NewPointer(t.Type()), V: &cell}
	}
	// errors.errorString would need the errors package; use fmt.wrapError with nil err
	t := fmtPkg.Type("wrapError")
	cell := Value(Struct{format, Iface{}})
	return Iface{T: types.NewPointer(t.Type()), V: &cell}
}

func errorType(fn *ssa.Function) types.Type {
	return types.Universe.Lookup("error").Type()
}

// nativeFormat formats concrete operands natively. ok=false if any operand is symbolic
// or of a kind we do not render.
func (e *Engine) nativeFormat(format string, va Slice) (string, bool) {
	goArgs := make([]interface{}, len(va))
	for i, a := range va {
		itf, ok := a.(Iface)
		if !ok {
			return "", false
		}
		if itf.T == nil {
			goArgs[i] = nil
			continue
		}
		switch v := itf.V.(type) {
		case *Term:
			if !v.IsConst() {
				return "", false
			}
			b, isB := itf.T.Underlying().(*types.Basic)
			if !isB {
				return "", false
			}
			switch {
			case v.Sort.K == SBool:
				goArgs[i] = v.BV == 1
			case v.Sort.K == SF64:
				goArgs[i] = v.F64()
			case v.Sort.K == SF32:
				goArgs[i] = v.F32()
			case isSignedBasic(b):
				switch b.Kind() {
				case types.Int32:
					goArgs[i] = int32(v.Int())
				default:
					goArgs[i] = int(v.Int())
				}
			default:
				goArgs[i] = uint(v.BV)
			}
		case Str:
			if !v.IsConcrete() {
				return "", false
			}
			goArgs[i] = v.s
		default:
			return "", false
		}
	}
	return fmt.Sprintf(format, goArgs...), true
}

// ---- unicode predicates as SMT define-funs built from the real tables ----

func rangeTableExpr(tabs ...*unicode.RangeTable) string {
	var parts []string
	add := func(lo, hi, stride uint32) {
		l := fmt.Sprintf("#x%08x", lo)
		h := fmt.Sprintf("#x%08x", hi)
		if lo == hi {
			parts = append(parts, fmt.Sprintf("(= r %s)", l))
			return
		}
		if stride == 1 {
			parts = append(parts, fmt.Sprintf("(and (bvule %s r) (bvule r %s))", l, h))
		} else {
			parts = append(parts, fmt.Sprintf("(and (bvule %s r) (bvule r %s) (= (bvurem (bvsub r %s) #x%08x) #x00000000))", l, h, l, stride))
		}
	}
	for _, tab := range tabs {
		for _, r := range tab.R16 {
			add(uint32(r.Lo), uint32(r.Hi), uint32(r.Stride))
		}
		for _, r := range tab.R32 {
			add(r.Lo, r.Hi, r.Stride)
		}
	}
	return "(or false " + strings.Join(parts, " ") + ")"
}

var uniPreds = map[string][]*unicode.RangeTable{
	"IsSpace":  {unicode.White_Space},
	"IsDigit":  {unicode.Digit},
	"IsLetter": {unicode.Letter},
	"IsUpper":  {unicode.Upper},
	"IsTitle":  {unicode.Title},
}

// latin1Ranges: [lo,hi] pairs below U+0100, computed from the real predicates at start-up.
var latin1Ranges = map[string][]int{}

func init() {
	for name, f := range uniNative {
		var rs []int
		start := -1
		for c := 0; c <= 256; c++ {
			in := c < 256 && f(rune(c))
			if in && start < 0 {
				start = c
			}
			if !in && start >= 0 {
				rs = append(rs, start, c-1)
				start = -1
			}
		}
		latin1Ranges[name] = rs
	}
}

var uniNative = map[string]func(rune) bool{
	"IsSpace":  unicode.IsSpace,
	"IsDigit":  unicode.IsDigit,
	"IsLetter": unicode.IsLetter,
	"IsUpper":  unicode.IsUpper,
	"IsTitle":  unicode.IsTitle,
}

// toLowerExpr: unicode.ToLower as a nested ite over unicode.CaseRanges (exactly the algorithm of unicode.to).
func toLowerExpr() string {
	expr := "r"
	for i := len(unicode.CaseRanges) - 1; i >= 0; i-- {
		cr := unicode.CaseRanges[i]
		delta := cr.Delta[unicode.LowerCase]
		if delta == 0 {
			continue
		}
		lo, hi := fmt.Sprintf("#x%08x", cr.Lo), fmt.Sprintf("#x%08x", cr.Hi)
		var mapped string
		if delta > unicode.MaxRune {
			// Upper-Lower sequence: lo + (((r-lo) &^ 1) | 1)
			mapped = fmt.Sprintf("(bvadd %s (bvor (bvand (bvsub r %s) #xfffffffe) #x00000001))", lo, lo)
		} else {
			mapped = fmt.Sprintf("(bvadd r #x%08x)", uint32(int32(delta)))
		}
		expr = fmt.Sprintf("(ite (and (bvule %s r) (bvule r %s)) %s %s)", lo, hi, mapped, expr)
	}
	return expr
}

func (e *Engine) installPreamble() {
	e.solver.Preamble(fmt.Sprintf("(define-fun |unicode.ToLower| ((r (_ BitVec 32))) (_ BitVec 32) %s)", toLowerExpr()))
	e.solver.declUFs["unicode.ToLower"] = true
	e.tt.ufs["unicode.ToLower"] = &ufDecl{name: "unicode.ToLower", args: []Sort{BVSort(32)}, ret: BVSort(32)}
	for _, name := range []string{"IsSpace", "IsDigit", "IsLetter", "IsUpper", "IsTitle"} {
		e.solver.Preamble(fmt.Sprintf("(define-fun |unicode.%s| ((r (_ BitVec 32))) Bool %s)", name, rangeTableExpr(uniPreds[name]...)))
		e.solver.declUFs["unicode."+name] = true
		e.tt.ufs["unicode."+name] = &ufDecl{name: "unicode." + name, args: []Sort{BVSort(32)}, ret: BoolSort}
	}
}

func (e *Engine) uniPred(name string, r *Term) *Term {
	if r.IsConst() {
		return e.tt.Bool(uniNative[name](rune(r.Int())))
	}
	// a rune that is the zero-extension of one byte is below U+0100: use the exact Latin-1 ranges
	if r.Op == OZExt && r.Args[0].Sort.W == 8 {
		if rs, ok := latin1Ranges[name]; ok {
			b := r.Args[0]
			tt := e.tt
			c := tt.False
			for i := 0; i+1 < len(rs); i += 2 {
				if rs[i] == rs[i+1] {
					c = tt.Or(c, tt.Eq(b, tt.BVConst(uint64(rs[i]), 8)))
				} else {
					c = tt.Or(c, tt.And(tt.ULe(tt.BVConst(uint64(rs[i]), 8), b), tt.ULe(b, tt.BVConst(uint64(rs[i+1]), 8))))
				}
			}
			return c
		}
	}
	return e.tt.App("unicode."+name, BoolSort, r)
}

// symbolicFormat: Sprintf for a concrete format whose verbs are %s / %v on strings and %d / %v on integers
// (operands may be symbolic: strings are concatenated, integers rendered by itoa), plus %%.
func (e *Engine) symbolicFormat(format string, va Slice) (Str, bool) {
	out := Str{}
	ai := 0
	for i := 0; i < len(format); i++ {
		c := format[i]
		if c != '%' {
			out = e.strConcat(out, Str{s: string(c)})
			continue
		}
		i++
		if i >= len(format) {
			return Str{}, false
		}
		v := format[i]
		if v == '%' {
			out = e.strConcat(out, Str{s: "%"})
			continue
		}
		if ai >= len(va) {
			return Str{}, false
		}
		it, ok := va[ai].(Iface)
		ai++
		if !ok || it.T == nil {
			return Str{}, false
		}
		switch x := it.V.(type) {
		case Str:
			if v != 's' && v != 'v' {
				return Str{}, false
			}
			if _, isBasic := it.T.Underlying().(*types.Basic); !isBasic {
				return Str{}, false
			}
			out = e.strConcat(out, x)
		case *Term:
			b, isBasic := it.T.Underlying().(*types.Basic)
			if !isBasic || b.Info()&types.IsInteger == 0 || !isSignedBasic(b) || (v != 'd' && v != 'v') {
				return Str{}, false
			}
			if named, isNamed := it.T.(*types.Named); isNamed && named.NumMethods() > 0 {
				return Str{}, false // may have a String method
			}
			t := x
			if t.Sort.W < 64 {
				t = e.tt.SExt(t, 64)
			}
			out = e.strConcat(out, e.itoa(t))
		default:
			return Str{}, false
		}
	}
	if ai != len(va) {
		return Str{}, false
	}
	return out, true
}
