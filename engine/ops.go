package main

import (
	"fmt"
	"go/token"
	"go/types"
	"unicode/utf8"

	"golang.org/x/tools/go/ssa"
)

func (e *Engine) unop(fr *frame, instr *ssa.UnOp, x Value) Value {
	switch instr.Op {
	case token.ARROW:
		c := x.(*Chan)
		v, ok := e.chanRecv(c, instr.X.Type().Underlying().(*types.Chan).Elem(), true)
		if instr.CommaOk {
			return Tuple{v, e.tt.Bool(ok)}
		}
		return v
	case token.MUL:
		return e.load(derefType(instr.X.Type()), x.(*Value))
	case token.SUB:
		t := x.(*Term)
		if isFP(t.Sort) {
			return e.tt.FNeg(t)
		}
		return e.tt.Neg(t)
	case token.NOT:
		return e.tt.Not(x.(*Term))
	case token.XOR:
		return e.tt.BNot(x.(*Term))
	}
	panic(engineError{fmt.Sprintf("unop %v", instr.Op)})
}

func (e *Engine) binop(op token.Token, t types.Type, x, y Value) Value {
	tt := e.tt
	switch op {
	case token.EQL:
		return e.equals(t, x, y)
	case token.NEQ:
		return tt.Not(e.equals(t, x, y))
	}
	switch a := x.(type) {
	case Str:
		b := y.(Str)
		switch op {
		case token.ADD:
			return e.strConcat(a, b)
		case token.LSS:
			return e.strLt(a, b)
		case token.GTR:
			return e.strLt(b, a)
		case token.LEQ:
			return tt.Not(e.strLt(b, a))
		case token.GEQ:
			return tt.Not(e.strLt(a, b))
		}
	case *Term:
		b := y.(*Term)
		if isFP(a.Sort) {
			switch op {
			case token.ADD:
				return tt.FAdd(a, b)
			case token.SUB:
				return tt.FSub(a, b)
			case token.MUL:
				return tt.FMul(a, b)
			case token.QUO:
				return tt.FDiv(a, b)
			case token.LSS:
				return tt.FLt(a, b)
			case token.LEQ:
				return tt.FLe(a, b)
			case token.GTR:
				return tt.FLt(b, a)
			case token.GEQ:
				return tt.FLe(b, a)
			}
			break
		}
		if a.Sort.K == SBool {
			switch op {
			case token.LAND, token.AND:
				return tt.And(a, b)
			case token.LOR, token.OR:
				return tt.Or(a, b)
			}
			break
		}
		signed := isSigned(t)
		switch op {
		case token.ADD:
			return tt.Add(a, b)
		case token.SUB:
			return tt.Sub(a, b)
		case token.MUL:
			return tt.Mul(a, b)
		case token.QUO, token.REM:
			if e.decide(tt.Eq(b, tt.BVConst(0, b.Sort.W))) {
				panic(targetPanic{msg: "runtime error: integer divide by zero"})
			}
			if signed {
				if op == token.QUO {
					return tt.SDiv(a, b)
				}
				return tt.SRem(a, b)
			}
			if op == token.QUO {
				return tt.UDiv(a, b)
			}
			return tt.URem(a, b)
		case token.AND:
			return tt.BAnd(a, b)
		case token.OR:
			return tt.BOr(a, b)
		case token.XOR:
			return tt.BXor(a, b)
		case token.AND_NOT:
			return tt.BAnd(a, tt.BNot(b))
		case token.SHL, token.SHR:
			// shift count may have a different width; Go: count >= width gives 0 / sign fill
			w := a.Sort.W
			var cnt *Term
			if b.Sort.W < w {
				cnt = tt.ZExt(b, w)
			} else if b.Sort.W > w {
				// saturate
				big := tt.ULe(tt.BVConst(uint64(w), b.Sort.W), b)
				cnt = tt.Ite(big, tt.BVConst(uint64(w), w), tt.Extract(b, w-1, 0))
			} else {
				cnt = b
			}
			if op == token.SHL {
				return tt.Shl(a, cnt)
			}
			if signed {
				return tt.AShr(a, cnt)
			}
			return tt.LShr(a, cnt)
		case token.LSS:
			if signed {
				return tt.SLt(a, b)
			}
			return tt.ULt(a, b)
		case token.LEQ:
			if signed {
				return tt.SLe(a, b)
			}
			return tt.ULe(a, b)
		case token.GTR:
			if signed {
				return tt.SLt(b, a)
			}
			return tt.ULt(b, a)
		case token.GEQ:
			if signed {
				return tt.SLe(b, a)
			}
			return tt.ULe(b, a)
		}
	}
	panic(engineError{fmt.Sprintf("binop %v on %T (%v)", op, x, t)})
}

// f2i converts a float term to a signed integer of width w with amd64 semantics.
func (e *Engine) f2i(x *Term, w int) *Term {
	tt := e.tt
	if x.IsConst() {
		r := tt.FToSBV(tt.FToFP(x, F64Sort), 64)
		return tt.Extract(r, w-1, 0)
	}
	// float64(i) converts back exactly when |i| < 2^53 can be seen from the shape of the term
	if x.Op == OSBVToFP && x.Sort.K == SF64 && signedBits(x.Args[0]) <= 53 {
		return tt.Extract(tt.SExt(x.Args[0], 64), w-1, 0)
	}
	if x.Op == OFNeg && x.Args[0].Op == OSBVToFP && x.Sort.K == SF64 && signedBits(x.Args[0].Args[0]) <= 53 {
		return tt.Extract(tt.Neg(tt.SExt(x.Args[0].Args[0], 64)), w-1, 0)
	}
	x64 := tt.FToFP(x, F64Sort)
	lo := tt.F64Const(-9.223372036854775808e18)
	hi := tt.F64Const(9.223372036854775808e18)
	inRange := tt.And(tt.FLe(lo, x64), tt.FLt(x64, hi)) // false for NaN
	r := tt.Ite(inRange, tt.FToSBV(x64, 64), tt.BVConst(0x8000000000000000, 64))
	return tt.Extract(r, w-1, 0)
}

// signedBits bounds the number of bits needed to hold t as a signed integer (a cheap syntactic bound).
func signedBits(t *Term) int {
	if t.Sort.K != SBV {
		return 64
	}
	w := t.Sort.W
	r := w
	switch t.Op {
	case OConst:
		v := t.Int()
		if v < 0 {
			v = -v - 1
		}
		r = 1
		for v > 0 {
			r++
			v >>= 1
		}
	case OZExt:
		r = signedBits0(t.Args[0]) + 1
	case OSExt:
		r = signedBits(t.Args[0])
	case ONeg:
		r = signedBits(t.Args[0]) + 1
	case OAdd, OSub:
		a, b := signedBits(t.Args[0]), signedBits(t.Args[1])
		if b > a {
			a = b
		}
		r = a + 1
	case OMul:
		r = signedBits(t.Args[0]) + signedBits(t.Args[1])
	case OBAnd:
		// masking with a non-negative constant bounds the result
		for _, a := range t.Args {
			if a.IsConst() && a.Int() >= 0 {
				if b := signedBits(a); b < r {
					r = b
				}
			}
		}
	case OIte:
		a, b := signedBits(t.Args[1]), signedBits(t.Args[2])
		if b > a {
			a = b
		}
		r = a
	}
	if r > w {
		r = w
	}
	return r
}

// signedBits0: bits of t read as an unsigned quantity.
func signedBits0(t *Term) int {
	if t.Op == OZExt {
		return signedBits0(t.Args[0])
	}
	return t.Sort.W
}

func (e *Engine) conv(tDst, tSrc types.Type, x Value) Value {
	tt := e.tt
	ut_src := tSrc.Underlying()
	ut_dst := tDst.Underlying()

	switch ut_src := ut_src.(type) {
	case *types.Pointer, *types.Signature:
		return x
	case *types.Slice:
		// []byte/[]rune -> string, or slice -> array (unsupported)
		s := x.(Slice)
		if b, ok := ut_dst.(*types.Basic); ok && b.Info()&types.IsString != 0 {
			eb := ut_src.Elem().Underlying().(*types.Basic)
			if eb.Kind() == types.Uint8 {
				bs := make([]*Term, len(s))
				for i, v := range s {
					bs[i] = v.(*Term)
				}
				return e.mkStr(bs)
			}
			if eb.Kind() == types.Int32 {
				var out []*Term
				for _, v := range s {
					out = append(out, e.encodeRune(v.(*Term))...)
				}
				return e.mkStr(out)
			}
		}
		if _, ok := ut_dst.(*types.Slice); ok {
			return x
		}
	case *types.Basic:
		if ut_src.Kind() == types.UnsafePointer {
			e.unsupported("conversion from unsafe.Pointer")
		}
		if ut_src.Info()&types.IsString != 0 {
			s := x.(Str)
			switch d := ut_dst.(type) {
			case *types.Basic:
				if d.Info()&types.IsString != 0 {
					return x
				}
			case *types.Slice:
				eb := d.Elem().Underlying().(*types.Basic)
				if eb.Kind() == types.Uint8 {
					out := make(Slice, s.Len())
					for i := range out {
						out[i] = e.strByte(s, i)
					}
					return out
				}
				if eb.Kind() == types.Int32 {
					out := Slice{}
					bs := e.strBytes(s)
					for i := 0; i < len(bs); {
						r, n := e.decodeRune(bs[i:])
						out = append(out, r)
						i += n
					}
					return out
				}
			}
			break
		}
		xt := x.(*Term)
		d, ok := ut_dst.(*types.Basic)
		if !ok {
			break
		}
		if d.Kind() == types.UnsafePointer {
			e.unsupported("conversion to unsafe.Pointer")
		}
		if d.Info()&types.IsString != 0 {
			// integer -> string (rune encoding)
			var r *Term
			if isSignedBasic(ut_src) {
				r = tt.SExt(xt, 64)
			} else {
				r = tt.ZExt(xt, 64)
			}
			// out of int32 range => RuneError
			inR := tt.And(tt.SLe(tt.IntConst(0, 64), r), tt.SLe(r, tt.IntConst(0x10FFFF, 64)))
			r32 := tt.Ite(inR, tt.Extract(r, 31, 0), tt.BVConst(0xFFFD, 32))
			return e.mkStr(e.encodeRune(r32))
		}
		dsort, ok := sortOfBasic(d)
		if !ok {
			break
		}
		switch {
		case xt.Sort.K == SBool && dsort.K == SBool:
			return xt
		case xt.Sort.K == SBV && dsort.K == SBV:
			if dsort.W <= xt.Sort.W {
				return tt.Extract(xt, dsort.W-1, 0)
			}
			if isSignedBasic(ut_src) {
				return tt.SExt(xt, dsort.W)
			}
			return tt.ZExt(xt, dsort.W)
		case xt.Sort.K == SBV && isFP(dsort):
			if isSignedBasic(ut_src) {
				return tt.SBVToFP(xt, dsort)
			}
			return tt.UBVToFP(xt, dsort)
		case isFP(xt.Sort) && isFP(dsort):
			return tt.FToFP(xt, dsort)
		case isFP(xt.Sort) && dsort.K == SBV:
			if !isSignedBasic(d) {
				if xt.IsConst() {
					f := xt.fval()
					return tt.BVConst(uint64(f), dsort.W)
				}
				e.unsupported("float to unsigned conversion of a symbolic value")
			}
			return e.f2i(xt, dsort.W)
		}
	}
	panic(engineError{fmt.Sprintf("unsupported conversion %v -> %v (%T)", tSrc, tDst, x)})
}

// ---- UTF-8 ----

// decodeRune mirrors utf8.DecodeRune on the (non-empty) byte terms, forking on byte classes.
// Returns the rune (BV32) and its width.
func (e *Engine) decodeRune(b []*Term) (*Term, int) {
	tt := e.tt
	if len(b) == 0 {
		return tt.BVConst(utf8.RuneError, 32), 0
	}
	b0 := b[0]
	c := func(v uint64) *Term { return tt.BVConst(v, 8) }
	in := func(x *Term, lo, hi uint64) *Term { return tt.And(tt.ULe(c(lo), x), tt.ULe(x, c(hi))) }
	z := func(x *Term) *Term { return tt.ZExt(x, 32) }
	bad := tt.BVConst(utf8.RuneError, 32)
	if e.decide(tt.ULt(b0, c(0x80))) {
		return z(b0), 1
	}
	// 2-byte: C2..DF
	if e.decide(in(b0, 0xC2, 0xDF)) {
		if len(b) < 2 || !e.decide(in(b[1], 0x80, 0xBF)) {
			return bad, 1
		}
		r := tt.BOr(tt.Shl(z(tt.BAnd(b0, c(0x1F))), tt.BVConst(6, 32)), z(tt.BAnd(b[1], c(0x3F))))
		return r, 2
	}
	// 3-byte: E0..EF
	if e.decide(in(b0, 0xE0, 0xEF)) {
		if len(b) < 2 {
			return bad, 1
		}
		// second byte ranges: E0: A0..BF ; ED: 80..9F ; else 80..BF
		ok1 := tt.Ite(tt.Eq(b0, c(0xE0)), in(b[1], 0xA0, 0xBF),
			tt.Ite(tt.Eq(b0, c(0xED)), in(b[1], 0x80, 0x9F), in(b[1], 0x80, 0xBF)))
		if !e.decide(ok1) {
			return bad, 1
		}
		if len(b) < 3 || !e.decide(in(b[2], 0x80, 0xBF)) {
			return bad, 1
		}
		r := tt.BOr(tt.BOr(tt.Shl(z(tt.BAnd(b0, c(0x0F))), tt.BVConst(12, 32)),
			tt.Shl(z(tt.BAnd(b[1], c(0x3F))), tt.BVConst(6, 32))), z(tt.BAnd(b[2], c(0x3F))))
		return r, 3
	}
	// 4-byte: F0..F4
	if e.decide(in(b0, 0xF0, 0xF4)) {
		if len(b) < 2 {
			return bad, 1
		}
		ok1 := tt.Ite(tt.Eq(b0, c(0xF0)), in(b[1], 0x90, 0xBF),
			tt.Ite(tt.Eq(b0, c(0xF4)), in(b[1], 0x80, 0x8F), in(b[1], 0x80, 0xBF)))
		if !e.decide(ok1) {
			return bad, 1
		}
		if len(b) < 3 || !e.decide(in(b[2], 0x80, 0xBF)) {
			return bad, 1
		}
		if len(b) < 4 || !e.decide(in(b[3], 0x80, 0xBF)) {
			return bad, 1
		}
		r := tt.BOr(tt.BOr(tt.BOr(tt.Shl(z(tt.BAnd(b0, c(0x07))), tt.BVConst(18, 32)),
			tt.Shl(z(tt.BAnd(b[1], c(0x3F))), tt.BVConst(12, 32))),
			tt.Shl(z(tt.BAnd(b[2], c(0x3F))), tt.BVConst(6, 32))), z(tt.BAnd(b[3], c(0x3F))))
		return r, 4
	}
	return bad, 1
}

// decodeLastRune mirrors utf8.DecodeLastRune.
func (e *Engine) decodeLastRune(b []*Term) (*Term, int) {
	tt := e.tt
	n := len(b)
	if n == 0 {
		return tt.BVConst(utf8.RuneError, 32), 0
	}
	if e.decide(tt.ULt(b[n-1], tt.BVConst(0x80, 8))) {
		return tt.ZExt(b[n-1], 32), 1
	}
	// walk back over up to 3 continuation bytes to find a start byte
	lim := n - utf8.UTFMax
	if lim < 0 {
		lim = 0
	}
	start := n - 1
	for start--; start >= lim; start-- {
		// RuneStart: not a continuation byte
		isCont := tt.Eq(tt.BAnd(b[start], tt.BVConst(0xC0, 8)), tt.BVConst(0x80, 8))
		if !e.decide(isCont) {
			break
		}
	}
	if start < lim {
		start = lim
	}
	r, size := e.decodeRune(b[start:n])
	if start+size != n {
		return tt.BVConst(utf8.RuneError, 32), 1
	}
	return r, size
}

// encodeRune mirrors utf8.AppendRune for a BV32 rune term (signed int32).
func (e *Engine) encodeRune(r *Term) []*Term {
	tt := e.tt
	c32 := func(v uint64) *Term { return tt.BVConst(v, 32) }
	lo8 := func(x *Term) *Term { return tt.Extract(x, 7, 0) }
	shr := func(x *Term, n uint64) *Term { return tt.LShr(x, c32(n)) }
	or8 := func(x *Term, v uint64) *Term { return tt.BOr(x, tt.BVConst(v, 8)) }
	and8 := func(x *Term, v uint64) *Term { return tt.BAnd(x, tt.BVConst(v, 8)) }
	cont := func(x *Term) *Term { return or8(and8(lo8(x), 0x3F), 0x80) }
	// negative or out of range or surrogate => RuneError (3 bytes EF BF BD)
	if e.decide(tt.ULe(r, c32(0x7F))) {
		return []*Term{lo8(r)}
	}
	if e.decide(tt.ULe(r, c32(0x7FF))) {
		return []*Term{or8(lo8(shr(r, 6)), 0xC0), cont(r)}
	}
	invalid := tt.Or(tt.ULt(c32(0x10FFFF), r), tt.And(tt.ULe(c32(0xD800), r), tt.ULe(r, c32(0xDFFF))))
	if e.decide(invalid) {
		return []*Term{tt.BVConst(0xEF, 8), tt.BVConst(0xBF, 8), tt.BVConst(0xBD, 8)}
	}
	if e.decide(tt.ULe(r, c32(0xFFFF))) {
		return []*Term{or8(lo8(shr(r, 12)), 0xE0), cont(shr(r, 6)), cont(r)}
	}
	return []*Term{or8(lo8(shr(r, 18)), 0xF0), cont(shr(r, 12)), cont(shr(r, 6)), cont(r)}
}

// ---- maps ----

func (e *Engine) keyEq(kt types.Type, a, b Value) *Term {
	return e.equals(kt, a, b)
}

func (e *Engine) mapFind(m *Map, k Value) int {
	for i := range m.entries {
		if e.decide(e.keyEq(m.kt, m.entries[i].k, k)) {
			return i
		}
	}
	return -1
}

func (e *Engine) mapInsert(m *Map, k, v Value) {
	if i := e.mapFind(m, k); i >= 0 {
		m.entries[i].v = copyVal(v)
		return
	}
	m.entries = append(m.entries, mapEntry{copyVal(k), copyVal(v)})
}

func (e *Engine) mapDelete(m *Map, k Value) {
	if i := e.mapFind(m, k); i >= 0 {
		m.entries = append(m.entries[:i:i], m.entries[i+1:]...)
	}
}

func (e *Engine) lookup(instr *ssa.Lookup, x, idx Value) Value {
	switch x := x.(type) {
	case *Map:
		var v Value
		ok := false
		if x != nil {
			if i := e.mapFind(x, idx); i >= 0 {
				v = copyVal(x.entries[i].v)
				ok = true
			}
		}
		if !ok {
			v = e.zero(instr.X.Type().Underlying().(*types.Map).Elem())
		}
		if instr.CommaOk {
			return Tuple{v, e.tt.Bool(ok)}
		}
		return v
	case Str:
		i := e.index(idx.(*Term), isSigned(instr.Index.Type()), x.Len())
		return e.strByte(x, i)
	}
	panic(engineError{fmt.Sprintf("lookup on %T", x)})
}

// ---- range ----

type mapIter struct {
	m     *Map
	order []int
	pos   int
	keys  []Value
}

type strIter struct {
	b   []*Term
	pos int
}

func (e *Engine) rangeIter(x Value, t types.Type) Value {
	switch x := x.(type) {
	case *Map:
		it := &mapIter{m: x}
		if x != nil {
			n := len(x.entries)
			it.order = e.mapOrder(n)
			// snapshot keys: Go semantics allow deletion during iteration; entries
			// removed before being reached are skipped
			for _, en := range x.entries {
				it.keys = append(it.keys, en.k)
			}
		}
		return it
	case Str:
		return &strIter{b: e.strBytes(x)}
	}
	panic(engineError{fmt.Sprintf("range over %T", x)})
}

// mapOrder picks an iteration order. Policy "insertion" (default) or
// "symbolic": a solver-chosen rotation/reversal so that order dependence shows.
func (e *Engine) mapOrder(n int) []int {
	order := make([]int, n)
	for i := range order {
		order[i] = i
	}
	if e.cfg.MapOrder == "symbolic" && n > 1 {
		e.mapOrderCtr++
		name := fmt.Sprintf("env.maporder.%d", e.mapOrderCtr)
		// insertion order, rotated by one, and both reversed: enough to expose order dependence
		// without multiplying paths by n!
		rot := e.chooseEnv(name+".rot", 2)
		rev := e.chooseEnv(name+".rev", 2)
		for i := range order {
			order[i] = (i + rot) % n
		}
		if rev == 1 {
			for i, j := 0, n-1; i < j; i, j = i+1, j-1 {
				order[i], order[j] = order[j], order[i]
			}
		}
	}
	return order
}

func (e *Engine) iterNext(it Value, instr *ssa.Next) Value {
	switch it := it.(type) {
	case *mapIter:
		for it.pos < len(it.order) {
			k := it.keys[it.order[it.pos]]
			it.pos++
			// find current entry with that key (identity of key value; entries are unique)
			for i := range it.m.entries {
				if e.sameKey(it.m.entries[i].k, k) {
					return Tuple{e.tt.True, copyVal(it.m.entries[i].k), copyVal(it.m.entries[i].v)}
				}
			}
		}
		mt := instr.Iter.(*ssa.Range).X.Type().Underlying().(*types.Map)
		return Tuple{e.tt.False, e.zero(mt.Key()), e.zero(mt.Elem())}
	case *strIter:
		if it.pos >= len(it.b) {
			return Tuple{e.tt.False, e.tt.IntConst(0, 64), e.tt.BVConst(0, 32)}
		}
		r, n := e.decodeRune(it.b[it.pos:])
		idx := it.pos
		it.pos += n
		return Tuple{e.tt.True, e.tt.IntConst(int64(idx), 64), r}
	}
	panic(engineError{fmt.Sprintf("next on %T", it)})
}

// sameKey is physical identity of key values (used only to re-find snapshot keys).
func (e *Engine) sameKey(a, b Value) bool {
	switch x := a.(type) {
	case *Term:
		y, ok := b.(*Term)
		return ok && x == y
	case Str:
		y, ok := b.(Str)
		if !ok || x.Len() != y.Len() {
			return false
		}
		if x.b == nil && y.b == nil {
			return x.s == y.s
		}
		xb, yb := e.strBytes(x), e.strBytes(y)
		for i := range xb {
			if xb[i] != yb[i] {
				return false
			}
		}
		return true
	case *Value:
		y, ok := b.(*Value)
		return ok && x == y
	case Iface:
		y, ok := b.(Iface)
		if !ok {
			return false
		}
		if x.T == nil || y.T == nil {
			return x.T == nil && y.T == nil
		}
		return types.Identical(x.T, y.T) && e.sameKey(x.V, y.V)
	case Struct:
		y, ok := b.(Struct)
		if !ok || len(x) != len(y) {
			return false
		}
		for i := range x {
			if !e.sameKey(x[i], y[i]) {
				return false
			}
		}
		return true
	}
	return false
}

// ---- channels ----

func (e *Engine) chanSend(c *Chan, v Value) {
	if c == nil {
		panic(pathEnd{kind: "deadlock", msg: "send on nil channel"})
	}
	if c.closed {
		panic(targetPanic{msg: "send on closed channel"})
	}
	if len(c.buf) >= c.cap {
		if e.inGoroutine > 0 {
			// A goroutine blocked in a send: the value waits in the sender queue until a receiver takes
			// it (rendezvous). Model limitation, stated in DESIGN: the goroutine itself is run on past
			// the send instead of being suspended; ysgo's and the harnesses' goroutines end right after
			// their send.
			c.sendq = append(c.sendq, copyVal(v))
			return
		}
		panic(pathEnd{kind: "deadlock", msg: "send on full channel would block the main flow"})
	}
	c.buf = append(c.buf, copyVal(v))
}

func (e *Engine) chanRecv(c *Chan, elem types.Type, blocking bool) (Value, bool) {
	if c == nil {
		panic(pathEnd{kind: "deadlock", msg: "receive on nil channel"})
	}
	for len(c.buf) == 0 {
		if len(c.sendq) > 0 {
			v := c.sendq[0]
			c.sendq = c.sendq[1:]
			return v, true
		}
		if c.closed {
			return e.zero(elem), false
		}
		if !blocking {
			return nil, false
		}
		// blocked: run pending goroutines, if any
		if !e.runOneGoroutine() {
			panic(pathEnd{kind: "deadlock", msg: "receive on empty channel would block forever"})
		}
	}
	v := c.buf[0]
	c.buf = c.buf[1:]
	if len(c.sendq) > 0 && len(c.buf) < c.cap {
		c.buf = append(c.buf, c.sendq[0])
		c.sendq = c.sendq[1:]
	}
	return v, true
}

func (e *Engine) runOneGoroutine() bool {
	if len(e.goroutines) == 0 {
		return false
	}
	g := e.goroutines[0]
	e.goroutines = e.goroutines[1:]
	e.inGoroutine++
	defer func() { e.inGoroutine-- }()
	e.call(nil, token.NoPos, g.fn, g.args)
	return true
}

func (e *Engine) selectOp(fr *frame, instr *ssa.Select) Value {
	// result tuple: (index int, recvOk bool, r_0 T_0, ... for each recv state)
	chosen := -1
	var recvVal Value
	recvOk := false
	try := func() bool {
		for i, st := range instr.States {
			c := fr.get(st.Chan).(*Chan)
			if c == nil {
				continue
			}
			if st.Dir == types.RecvOnly {
				if len(c.buf) > 0 || len(c.sendq) > 0 || c.closed {
					v, ok := e.chanRecv(c, st.Chan.Type().Underlying().(*types.Chan).Elem(), false)
					chosen, recvVal, recvOk = i, v, ok
					return true
				}
			} else {
				if c.closed {
					panic(targetPanic{msg: "send on closed channel"})
				}
				if len(c.buf) < c.cap {
					c.buf = append(c.buf, copyVal(fr.get(st.Send)))
					chosen = i
					return true
				}
			}
		}
		return false
	}
	if !try() && instr.Blocking {
		for {
			if !e.runOneGoroutine() {
				panic(pathEnd{kind: "deadlock", msg: "select would block forever"})
			}
			if try() {
				break
			}
		}
	}
	r := Tuple{e.tt.IntConst(int64(chosen), 64), e.tt.Bool(recvOk)}
	for i, st := range instr.States {
		if st.Dir == types.RecvOnly {
			var v Value
			if i == chosen && recvOk {
				v = recvVal
			} else {
				v = e.zero(st.Chan.Type().Underlying().(*types.Chan).Elem())
			}
			r = append(r, v)
		}
	}
	return r
}
