package main

// reflect, by engine intrinsics over go/types (DESIGN 3.6(5)). The engine knows the static
// type of every value, so the entry points ysgo uses are implemented here with the
// documented semantics of package reflect; reflect's own implementation is never executed.

import (
	"fmt"
	"go/types"

	"golang.org/x/tools/go/ssa"
)

func (e *Engine) rtypeIface(fn *ssa.Function, t types.Type) Value {
	if t == nil {
		return Iface{}
	}
	return Iface{T: e.rtypePtr(fn), V: RType{T: t}}
}

func (e *Engine) rtypePtr(fn *ssa.Function) types.Type {
	if e.x.rtypePtrT != nil {
		return e.x.rtypePtrT
	}
	rp := e.prog.ImportedPackage("reflect")
	if rp == nil {
		panic(engineError{"reflect package not loaded"})
	}
	e.x.rtypePtrT = types.NewPointer(rp.Type("rtype").Type())
	return e.x.rtypePtrT
}

func kindOf(t types.Type) uint64 {
	switch u := t.Underlying().(type) {
	case *types.Basic:
		switch u.Kind() {
		case types.Bool, types.UntypedBool:
			return 1
		case types.Int, types.UntypedInt:
			return 2
		case types.Int8:
			return 3
		case types.Int16:
			return 4
		case types.Int32, types.UntypedRune:
			return 5
		case types.Int64:
			return 6
		case types.Uint:
			return 7
		case types.Uint8:
			return 8
		case types.Uint16:
			return 9
		case types.Uint32:
			return 10
		case types.Uint64:
			return 11
		case types.Uintptr:
			return 12
		case types.Float32:
			return 13
		case types.Float64, types.UntypedFloat:
			return 14
		case types.Complex64:
			return 15
		case types.Complex128:
			return 16
		case types.String, types.UntypedString:
			return 24
		case types.UnsafePointer:
			return 26
		}
	case *types.Array:
		return 17
	case *types.Chan:
		return 18
	case *types.Signature:
		return 19
	case *types.Interface:
		return 20
	case *types.Map:
		return 21
	case *types.Pointer:
		return 22
	case *types.Slice:
		return 23
	case *types.Struct:
		return 25
	}
	return 0
}

func reflectPanic(format string, args ...interface{}) {
	panic(targetPanic{msg: "reflect: " + fmt.Sprintf(format, args...)})
}

func rtypeArg(args []Value) types.Type {
	switch v := args[0].(type) {
	case RType:
		return v.T
	case *Value:
		// nil *rtype receiver
		reflectPanic("nil Type")
	}
	panic(engineError{fmt.Sprintf("reflect.Type receiver is %T", args[0])})
}

func sigOf(t types.Type, what string) *types.Signature {
	s, ok := t.Underlying().(*types.Signature)
	if !ok {
		reflectPanic("%s of non-func type %s", what, t)
	}
	return s
}

func isNilable(v Value) (bool, bool) {
	switch x := v.(type) {
	case *Value:
		return x == nil, true
	case *Map:
		return x == nil, true
	case *Chan:
		return x == nil, true
	case Slice:
		return x == nil, true
	case Iface:
		return x.T == nil, true
	case *Closure, *ssa.Function, *ssa.Builtin:
		return isNilFunc(v), true
	case nil:
		return true, true
	}
	return false, false
}

func registerReflect() {
	I := stdIntrinsics
	I["reflect.TypeOf"] = func(e *Engine, caller *frame, fn *ssa.Function, args []Value) Value {
		itf := args[0].(Iface)
		return e.rtypeIface(fn, itf.T)
	}
	I["reflect.ValueOf"] = func(e *Engine, caller *frame, fn *ssa.Function, args []Value) Value {
		itf := args[0].(Iface)
		if itf.T == nil {
			return RValue{}
		}
		return RValue{T: itf.T, V: itf.V}
	}
	I["(*reflect.rtype).Kind"] = func(e *Engine, caller *frame, fn *ssa.Function, args []Value) Value {
		return e.tt.BVConst(kindOf(rtypeArg(args)), 64)
	}
	I["(*reflect.rtype).String"] = func(e *Engine, caller *frame, fn *ssa.Function, args []Value) Value {
		return Str{s: rtypeArg(args).String()}
	}
	I["(*reflect.rtype).Elem"] = func(e *Engine, caller *frame, fn *ssa.Function, args []Value) Value {
		t := rtypeArg(args)
		switch u := t.Underlying().(type) {
		case *types.Pointer:
			return e.rtypeIface(fn, u.Elem())
		case *types.Slice:
			return e.rtypeIface(fn, u.Elem())
		case *types.Array:
			return e.rtypeIface(fn, u.Elem())
		case *types.Chan:
			return e.rtypeIface(fn, u.Elem())
		case *types.Map:
			return e.rtypeIface(fn, u.Elem())
		}
		reflectPanic("Elem of invalid type %s", t)
		return nil
	}
	I["(*reflect.rtype).NumIn"] = func(e *Engine, caller *frame, fn *ssa.Function, args []Value) Value {
		return e.tt.IntConst(int64(sigOf(rtypeArg(args), "NumIn").Params().Len()), 64)
	}
	I["(*reflect.rtype).NumOut"] = func(e *Engine, caller *frame, fn *ssa.Function, args []Value) Value {
		return e.tt.IntConst(int64(sigOf(rtypeArg(args), "NumOut").Results().Len()), 64)
	}
	I["(*reflect.rtype).IsVariadic"] = func(e *Engine, caller *frame, fn *ssa.Function, args []Value) Value {
		return e.tt.Bool(sigOf(rtypeArg(args), "IsVariadic").Variadic())
	}
	I["(*reflect.rtype).In"] = func(e *Engine, caller *frame, fn *ssa.Function, args []Value) Value {
		s := sigOf(rtypeArg(args), "In")
		i := concreteIntArg(e, args[1], "reflect In index")
		if i < 0 || int(i) >= s.Params().Len() {
			panic(targetPanic{msg: "reflect: Func index out of bounds"})
		}
		return e.rtypeIface(fn, s.Params().At(int(i)).Type())
	}
	I["(*reflect.rtype).Out"] = func(e *Engine, caller *frame, fn *ssa.Function, args []Value) Value {
		s := sigOf(rtypeArg(args), "Out")
		i := concreteIntArg(e, args[1], "reflect Out index")
		if i < 0 || int(i) >= s.Results().Len() {
			panic(targetPanic{msg: "reflect: Func index out of bounds"})
		}
		return e.rtypeIface(fn, s.Results().At(int(i)).Type())
	}
	I["(*reflect.rtype).ConvertibleTo"] = func(e *Engine, caller *frame, fn *ssa.Function, args []Value) Value {
		t := rtypeArg(args)
		u := args[1].(Iface)
		if u.T == nil {
			reflectPanic("nil type passed to Type.ConvertibleTo")
		}
		return e.tt.Bool(types.ConvertibleTo(t, u.V.(RType).T))
	}
	I["(*reflect.rtype).AssignableTo"] = func(e *Engine, caller *frame, fn *ssa.Function, args []Value) Value {
		t := rtypeArg(args)
		u := args[1].(Iface)
		if u.T == nil {
			reflectPanic("nil type passed to Type.AssignableTo")
		}
		return e.tt.Bool(types.AssignableTo(t, u.V.(RType).T))
	}
	I["(*reflect.rtype).Implements"] = func(e *Engine, caller *frame, fn *ssa.Function, args []Value) Value {
		t := rtypeArg(args)
		u := args[1].(Iface)
		if u.T == nil {
			reflectPanic("nil type passed to Type.Implements")
		}
		return e.tt.Bool(e.implements(t, u.V.(RType).T))
	}

	rv := func(args []Value, what string) RValue {
		v, ok := args[0].(RValue)
		if !ok {
			// zero reflect.Value{} built as a plain struct
			reflectPanic("call of reflect.Value.%s on zero Value", what)
		}
		if v.T == nil {
			reflectPanic("call of reflect.Value.%s on zero Value", what)
		}
		return v
	}
	I["(reflect.Value).Kind"] = func(e *Engine, caller *frame, fn *ssa.Function, args []Value) Value {
		v, ok := args[0].(RValue)
		if !ok || v.T == nil {
			return e.tt.BVConst(0, 64)
		}
		return e.tt.BVConst(kindOf(v.T), 64)
	}
	I["(reflect.Value).IsValid"] = func(e *Engine, caller *frame, fn *ssa.Function, args []Value) Value {
		v, ok := args[0].(RValue)
		return e.tt.Bool(ok && v.T != nil)
	}
	I["(reflect.Value).Interface"] = func(e *Engine, caller *frame, fn *ssa.Function, args []Value) Value {
		v := rv(args, "Interface")
		if _, ok := v.T.Underlying().(*types.Interface); ok {
			return v.V.(Iface)
		}
		return Iface{T: v.T, V: v.V}
	}
	I["(reflect.Value).IsNil"] = func(e *Engine, caller *frame, fn *ssa.Function, args []Value) Value {
		v := rv(args, "IsNil")
		n, ok := isNilable(v.V)
		if !ok {
			reflectPanic("call of reflect.Value.IsNil on %s Value", v.T)
		}
		return e.tt.Bool(n)
	}
	I["(reflect.Value).CanFloat"] = func(e *Engine, caller *frame, fn *ssa.Function, args []Value) Value {
		v, ok := args[0].(RValue)
		if !ok || v.T == nil {
			return e.tt.False
		}
		k := kindOf(v.T)
		return e.tt.Bool(k == 13 || k == 14)
	}
	I["(reflect.Value).CanInt"] = func(e *Engine, caller *frame, fn *ssa.Function, args []Value) Value {
		v, ok := args[0].(RValue)
		if !ok || v.T == nil {
			return e.tt.False
		}
		k := kindOf(v.T)
		return e.tt.Bool(k >= 2 && k <= 6)
	}
	I["(reflect.Value).Float"] = func(e *Engine, caller *frame, fn *ssa.Function, args []Value) Value {
		v := rv(args, "Float")
		k := kindOf(v.T)
		if k != 13 && k != 14 {
			reflectPanic("call of reflect.Value.Float on %s Value", v.T)
		}
		return e.tt.FToFP(v.V.(*Term), F64Sort)
	}
	I["(reflect.Value).Int"] = func(e *Engine, caller *frame, fn *ssa.Function, args []Value) Value {
		v := rv(args, "Int")
		k := kindOf(v.T)
		if k < 2 || k > 6 {
			reflectPanic("call of reflect.Value.Int on %s Value", v.T)
		}
		return e.tt.SExt(v.V.(*Term), 64)
	}
	I["(reflect.Value).Bool"] = func(e *Engine, caller *frame, fn *ssa.Function, args []Value) Value {
		v := rv(args, "Bool")
		if kindOf(v.T) != 1 {
			reflectPanic("call of reflect.Value.Bool on %s Value", v.T)
		}
		return v.V
	}
	I["(reflect.Value).String"] = func(e *Engine, caller *frame, fn *ssa.Function, args []Value) Value {
		v, ok := args[0].(RValue)
		if !ok || v.T == nil {
			return Str{s: "<invalid Value>"}
		}
		if kindOf(v.T) == 24 {
			return v.V
		}
		return Str{s: "<" + v.T.String() + " Value>"}
	}
	I["(reflect.Value).Type"] = func(e *Engine, caller *frame, fn *ssa.Function, args []Value) Value {
		v := rv(args, "Type")
		return e.rtypeIface(fn, v.T)
	}
	I["(reflect.Value).CanConvert"] = func(e *Engine, caller *frame, fn *ssa.Function, args []Value) Value {
		v := rv(args, "CanConvert")
		u := args[1].(Iface)
		if u.T == nil {
			reflectPanic("nil type passed to Value.CanConvert")
		}
		return e.tt.Bool(types.ConvertibleTo(v.T, u.V.(RType).T))
	}
	I["(reflect.Value).Len"] = func(e *Engine, caller *frame, fn *ssa.Function, args []Value) Value {
		v := rv(args, "Len")
		switch x := v.V.(type) {
		case Slice:
			return e.tt.IntConst(int64(len(x)), 64)
		case Str:
			return e.tt.IntConst(int64(x.Len()), 64)
		case Array:
			return e.tt.IntConst(int64(len(x)), 64)
		case *Map:
			if x == nil {
				return e.tt.IntConst(0, 64)
			}
			return e.tt.IntConst(int64(len(x.entries)), 64)
		case *Chan:
			if x == nil {
				return e.tt.IntConst(0, 64)
			}
			return e.tt.IntConst(int64(len(x.buf)), 64)
		}
		reflectPanic("call of reflect.Value.Len on %s Value", v.T)
		return nil
	}
	I["(reflect.Value).Index"] = func(e *Engine, caller *frame, fn *ssa.Function, args []Value) Value {
		v := rv(args, "Index")
		i := int(concreteIntArg(e, args[1], "reflect Index"))
		switch x := v.V.(type) {
		case Slice:
			if i < 0 || i >= len(x) {
				reflectPanic("slice index out of range")
			}
			return RValue{T: v.T.Underlying().(*types.Slice).Elem(), V: copyVal(x[i])}
		case Array:
			if i < 0 || i >= len(x) {
				reflectPanic("array index out of range")
			}
			return RValue{T: v.T.Underlying().(*types.Array).Elem(), V: copyVal(x[i])}
		}
		reflectPanic("call of reflect.Value.Index on %s Value", v.T)
		return nil
	}
	I["(reflect.Value).IsZero"] = func(e *Engine, caller *frame, fn *ssa.Function, args []Value) Value {
		v := rv(args, "IsZero")
		if n, ok := isNilable(v.V); ok {
			if s, isSlice := v.V.(Slice); isSlice {
				return e.tt.Bool(s == nil)
			}
			return e.tt.Bool(n)
		}
		if types.Comparable(v.T) {
			return e.equals(v.T, v.V, e.zero(v.T))
		}
		e.unsupported("reflect.Value.IsZero on %s", v.T)
		return nil
	}
	I["(reflect.Value).Elem"] = func(e *Engine, caller *frame, fn *ssa.Function, args []Value) Value {
		v := rv(args, "Elem")
		switch u := v.T.Underlying().(type) {
		case *types.Interface:
			itf := v.V.(Iface)
			if itf.T == nil {
				return RValue{}
			}
			return RValue{T: itf.T, V: itf.V}
		case *types.Pointer:
			p := v.V.(*Value)
			if p == nil {
				return RValue{}
			}
			return RValue{T: u.Elem(), V: copyVal(*p)}
		}
		reflectPanic("call of reflect.Value.Elem on %s Value", v.T)
		return nil
	}
	I["(*reflect.rtype).Name"] = func(e *Engine, caller *frame, fn *ssa.Function, args []Value) Value {
		t := rtypeArg(args)
		switch n := t.(type) {
		case *types.Named:
			return Str{s: n.Obj().Name()}
		case *types.Basic:
			return Str{s: n.Name()}
		}
		return Str{}
	}
	I["(*reflect.rtype).PkgPath"] = func(e *Engine, caller *frame, fn *ssa.Function, args []Value) Value {
		if n, ok := rtypeArg(args).(*types.Named); ok && n.Obj().Pkg() != nil {
			return Str{s: n.Obj().Pkg().Path()}
		}
		return Str{}
	}
	I["(*reflect.rtype).Comparable"] = func(e *Engine, caller *frame, fn *ssa.Function, args []Value) Value {
		return e.tt.Bool(types.Comparable(rtypeArg(args)))
	}
	I["(*reflect.rtype).ChanDir"] = func(e *Engine, caller *frame, fn *ssa.Function, args []Value) Value {
		c, ok := rtypeArg(args).Underlying().(*types.Chan)
		if !ok {
			reflectPanic("ChanDir of non-chan type")
		}
		switch c.Dir() {
		case types.RecvOnly:
			return e.tt.IntConst(1, 64)
		case types.SendOnly:
			return e.tt.IntConst(2, 64)
		}
		return e.tt.IntConst(3, 64)
	}
	I["(reflect.Value).Convert"] = func(e *Engine, caller *frame, fn *ssa.Function, args []Value) Value {
		v := rv(args, "Convert")
		u := args[1].(Iface)
		if u.T == nil {
			reflectPanic("nil type passed to Value.Convert")
		}
		target := u.V.(RType).T
		if !types.ConvertibleTo(v.T, target) {
			reflectPanic("value of type %s cannot be converted to type %s", v.T, target)
		}
		if types.Identical(v.T.Underlying(), target.Underlying()) {
			return RValue{T: target, V: v.V}
		}
		if _, isIface := target.Underlying().(*types.Interface); isIface {
			if _, srcIface := v.T.Underlying().(*types.Interface); srcIface {
				return RValue{T: target, V: v.V}
			}
			return RValue{T: target, V: Iface{T: v.T, V: v.V}}
		}
		return RValue{T: target, V: e.conv(target, v.T, v.V)}
	}
	I["(reflect.Value).Call"] = func(e *Engine, caller *frame, fn *ssa.Function, args []Value) Value {
		v := rv(args, "Call")
		sig, ok := v.T.Underlying().(*types.Signature)
		if !ok {
			reflectPanic("call of reflect.Value.Call on %s Value", v.T)
		}
		if isNilFunc(v.V) {
			reflectPanic("call of nil function")
		}
		in := args[1].(Slice)
		n := sig.Params().Len()
		if sig.Variadic() {
			if len(in) < n-1 {
				reflectPanic("Call with too few input arguments")
			}
		} else {
			if len(in) < n {
				reflectPanic("Call with too few input arguments")
			}
			if len(in) > n {
				reflectPanic("Call with too many input arguments")
			}
		}
		conv := func(a Value, target types.Type) Value {
			av, ok := a.(RValue)
			if !ok || av.T == nil {
				reflectPanic("Call using zero Value argument")
			}
			if !types.AssignableTo(av.T, target) {
				reflectPanic("Call using %s as type %s", av.T, target)
			}
			_, tIface := target.Underlying().(*types.Interface)
			_, aIface := av.T.Underlying().(*types.Interface)
			if tIface && !aIface {
				return Iface{T: av.T, V: av.V}
			}
			return av.V
		}
		var callArgs []Value
		if sig.Variadic() {
			for i := 0; i < n-1; i++ {
				callArgs = append(callArgs, conv(in[i], sig.Params().At(i).Type()))
			}
			elem := sig.Params().At(n - 1).Type().(*types.Slice).Elem()
			rest := Slice{}
			for i := n - 1; i < len(in); i++ {
				rest = append(rest, conv(in[i], elem))
			}
			if len(rest) == 0 {
				rest = nil
			}
			callArgs = append(callArgs, rest)
		} else {
			for i := 0; i < n; i++ {
				callArgs = append(callArgs, conv(in[i], sig.Params().At(i).Type()))
			}
		}
		res := e.call(caller, 0, v.V, callArgs)
		out := Slice{}
		switch sig.Results().Len() {
		case 0:
		case 1:
			out = append(out, RValue{T: sig.Results().At(0).Type(), V: res})
		default:
			tup := res.(Tuple)
			for i := 0; i < sig.Results().Len(); i++ {
				out = append(out, RValue{T: sig.Results().At(i).Type(), V: tup[i]})
			}
		}
		return out
	}
}
